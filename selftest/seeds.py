#!/usr/bin/env python3
"""Runs the property checks against every independently seeded change under /verif/seeded
(applied to a scratch copy of /repo, removed afterwards) and reports which are detected."""
import json, os, shutil, subprocess, sys, tempfile, glob
env = dict(os.environ, GOFLAGS="-mod=mod", GOPROXY="off", GOSUMDB="off", GOTOOLCHAIN="local")
only = sys.argv[1:]
rows = []
for d in sorted(glob.glob("/verif/seeded/*/")):
    sid = os.path.basename(d.rstrip("/"))
    if only and sid not in only: continue
    meta = json.load(open(d + "meta.json"))
    props = [meta["property"]] + meta.get("also_check", [])
    s = tempfile.mkdtemp(prefix="pvc-seed-")
    try:
        subprocess.run(["rsync", "-a", "--exclude", ".git", "/repo/", s + "/"], check=True)
        r = subprocess.run(["patch", "-p1", "-s", "-i", d + "patch.diff"], cwd=s, capture_output=True, text=True)
        if r.returncode != 0:
            rows.append((sid, "PATCH-DOES-NOT-APPLY", "")); continue
        caught = []
        for p in props:
            files = [l[6:].strip() for l in open(d + "patch.diff") if l.startswith("+++ b/")]
            r = subprocess.run(["/verif/bin/plencvc", "check", "--property", p, "--repo", s, "--no-evidence", "--replay-dir", s + "/.replays", "--files", ",".join(files)], env=env, capture_output=True, text=True)
            v = [l for l in r.stdout.splitlines() if l.startswith("VIOLATION")]
            if r.returncode == 1 and v:
                caught.append(f"{p}:{len(v)}({sum('no-failing-input-found' not in l for l in v)} replayed)")
        status = "caught" if caught else ("missed (recorded as a known gap in meta.json)" if meta.get("known_miss") else "MISSED")
        rows.append((sid, status, " ".join(caught)))
    finally:
        shutil.rmtree(s, ignore_errors=True)
for r in rows: print("%-32s %-8s %s" % r)
