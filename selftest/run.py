#!/usr/bin/env python3
"""Must-fail corpus: apply each mutation to a scratch copy of /repo (outside
/repo and /verif), run the property check against the copy and require a
VIOLATION; remove the copy. Usage: run.py [--property Cnn] [--id x] [--tests]"""
import json, os, shutil, subprocess, sys, tempfile, argparse
ap = argparse.ArgumentParser()
ap.add_argument("--property"); ap.add_argument("--id"); ap.add_argument("--tests", action="store_true")
ap.add_argument("--keep", action="store_true")
ap.add_argument("--full", action="store_true", help="analyse every function of the property, not only those of the mutated file")
a = ap.parse_args()
env = dict(os.environ, GOFLAGS="-mod=mod", GOPROXY="off", GOSUMDB="off", GOTOOLCHAIN="local")
muts = json.load(open("/verif/selftest/mutations.json"))
bad = 0
for m in muts:
    if a.property and m["property"] != a.property: continue
    if a.id and m["id"] != a.id: continue
    d = tempfile.mkdtemp(prefix="pvc-self-")
    try:
        subprocess.run(["rsync", "-a", "--exclude", ".git", "/repo/", d + "/"], check=True)
        p = os.path.join(d, m["file"]); s = open(p).read()
        if m["old"] not in s:
            print(f"SELFTEST-ERROR {m['id']}: pattern not found"); bad += 1; continue
        open(p, "w").write(s.replace(m["old"], m["new"], m.get("count", 1)))
        r = subprocess.run(["go", "build", "./..."], cwd=d, env=env, capture_output=True, text=True)
        if r.returncode != 0:
            print(f"SELFTEST-ERROR {m['id']}: mutant does not compile\n{r.stderr[-500:]}"); bad += 1; continue
        if a.tests:
            r = subprocess.run(["go", "test", "-vet=off", "-count=1", "./..."], cwd=d, env=env, capture_output=True, text=True)
            print(f"  {m['id']}: repo tests {'pass' if r.returncode == 0 else 'FAIL'}")
        # contracts are unchanged, so only the functions of the mutated file can have different obligations
        cmd = ["/verif/bin/plencvc", "check", "--property", m["property"], "--repo", d, "--no-evidence", "--replay-dir", d + "/.replays"]
        if not a.full:
            cmd += ["--files", m["file"]]
        r = subprocess.run(cmd,
                           env=env, capture_output=True, text=True)
        viol = [l for l in r.stdout.splitlines() if l.startswith("VIOLATION")]
        if r.returncode == 1 and viol:
            repro = [l for l in viol if "no-failing-input-found" not in l]
            print(f"caught   {m['id']} ({m['property']}): {len(viol)} violation line(s), {len(repro)} replayed on the real code")
        elif m.get("known_gap"):
            # a documented gap of the contracts: reported, but not a failure of the machinery
            print(f"KNOWN-GAP {m['id']} ({m['property']}): not detected - {m['known_gap']}")
        else:
            print(f"MISSED   {m['id']} ({m['property']}): exit {r.returncode}\n{r.stdout[-800:]}"); bad += 1
    finally:
        if not a.keep: shutil.rmtree(d, ignore_errors=True)
sys.exit(1 if bad else 0)
