#!/bin/sh
# usage: check.sh <property> [quick|thorough]
# Runs the contract check of one property against /repo's current working tree.
export GOFLAGS=-mod=mod GOPROXY=off GOSUMDB=off GOTOOLCHAIN=local
P="$1"; T="${2:-${VERIF_TIER:-quick}}"
[ -x /verif/bin/plencvc ] || /verif/setup.sh || exit 2
/verif/bin/plencvc check --property "$P" --tier "$T"
rc=$?
if [ "$T" = "thorough" ] && [ $rc -eq 0 ]; then
  # must-fail corpus: every seeded mutation of this property must be reported
  python3 /verif/selftest/run.py --property "$P" > /verif/evidence/"$P".selftest.txt 2>&1
  if [ $? -ne 0 ]; then
    cat /verif/evidence/"$P".selftest.txt
    echo "ERROR: the must-fail corpus of $P is not fully detected (machinery problem, not a property verdict)"
    exit 2
  fi
fi
exit $rc
