#!/bin/sh
# Build the engine from files on disk only (offline).
set -e
export GOFLAGS=-mod=mod GOPROXY=off GOSUMDB=off GOTOOLCHAIN=local
cd /verif/engine
mkdir -p /verif/bin
go build -o /verif/bin/plencvc .
