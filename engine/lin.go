package main

import (
	"sort"
	"strings"
)

// Linear normalisation of 64-bit address differences. Addresses are sums of a
// base pointer and offsets; the range test of a write fact, (a - at) <u n, is
// much easier for the solvers once the common base pointer has been cancelled
// syntactically. Only bvadd/bvsub/literals are interpreted (modular arithmetic,
// so the rewriting is exact); every other term is an atom. Names introduced by
// define-fun for address arithmetic are expanded through defBody.

type linSum struct {
	atoms map[string]int64 // atom -> coefficient
	konst uint64
}

func splitSexpr(t string) (op string, args []string, ok bool) {
	if !strings.HasPrefix(t, "(") || !strings.HasSuffix(t, ")") {
		return "", nil, false
	}
	body := t[1 : len(t)-1]
	depth := 0
	start := 0
	var parts []string
	for i := 0; i < len(body); i++ {
		switch body[i] {
		case '(':
			depth++
		case ')':
			depth--
		case ' ':
			if depth == 0 {
				if i > start {
					parts = append(parts, body[start:i])
				}
				start = i + 1
			}
		}
	}
	if start < len(body) {
		parts = append(parts, body[start:])
	}
	if len(parts) == 0 || depth != 0 {
		return "", nil, false
	}
	return parts[0], parts[1:], true
}

func (x *Exec) linAdd(s *linSum, t string, sign int64, depth int) {
	if v, w, ok := litVal(t); ok && w == 64 {
		if sign > 0 {
			s.konst += v
		} else {
			s.konst -= v
		}
		return
	}
	if depth < 12 {
		x.defMu.Lock()
		body, ok := x.defBody[t]
		x.defMu.Unlock()
		if ok {
			x.linAdd(s, body, sign, depth+1)
			return
		}
		if op, args, ok := splitSexpr(t); ok {
			switch op {
			case "bvadd":
				for _, a := range args {
					x.linAdd(s, a, sign, depth+1)
				}
				return
			case "bvsub":
				if len(args) == 2 {
					x.linAdd(s, args[0], sign, depth+1)
					x.linAdd(s, args[1], -sign, depth+1)
					return
				}
			}
		}
	}
	s.atoms[t] += sign
}

// elemDiff recognises a - at == es*(k - i) + c for two element addresses of one array
// (base cancelled; es a literal element size; c a literal with |c| < es).
func (x *Exec) elemDiff(a, at string) (k, i string, es uint64, c int64, ok bool) {
	s := &linSum{atoms: map[string]int64{}}
	x.linAdd(s, a, 1, 0)
	x.linAdd(s, at, -1, 0)
	var pos, neg string
	for t, co := range s.atoms {
		switch co {
		case 0:
		case 1:
			if pos != "" {
				return
			}
			pos = t
		case -1:
			if neg != "" {
				return
			}
			neg = t
		default:
			return
		}
	}
	if pos == "" || neg == "" {
		return
	}
	split := func(t string) (string, uint64, bool) {
		op, args, ok := splitSexpr(t)
		if !ok || op != "bvmul" || len(args) != 2 {
			return "", 0, false
		}
		if v, w, ok := litVal(args[1]); ok && w == 64 {
			return args[0], v, true
		}
		if v, w, ok := litVal(args[0]); ok && w == 64 {
			return args[1], v, true
		}
		return "", 0, false
	}
	k, e1, ok1 := split(pos)
	i, e2, ok2 := split(neg)
	if !ok1 || !ok2 || e1 != e2 || e1 < 2 || e1 > 1<<20 {
		return "", "", 0, 0, false
	}
	c = int64(s.konst)
	if c <= -int64(e1) || c >= int64(e1) {
		return "", "", 0, 0, false
	}
	return k, i, e1, c, true
}

// elemRange recognises a - at == es*idx + c with 0 <= c < es and n == es*cnt (cnt < 2^40 by the
// allocation obligations): for idx in [0, 2^40) the address lies in [at, at+n) exactly when idx < cnt.
func (x *Exec) elemRange(a, at, n string) (idx, cnt string, ok bool) {
	s := &linSum{atoms: map[string]int64{}}
	x.linAdd(s, a, 1, 0)
	x.linAdd(s, at, -1, 0)
	var pos string
	for t, co := range s.atoms {
		switch co {
		case 0:
		case 1:
			if pos != "" {
				return "", "", false
			}
			pos = t
		default:
			return "", "", false
		}
	}
	split := func(t string) (string, uint64, bool) {
		for d := 0; d < 6; d++ {
			x.defMu.Lock()
			body, isDef := x.mulBody[t]
			x.defMu.Unlock()
			if !isDef {
				break
			}
			t = body
		}
		op, args, ok := splitSexpr(t)
		if !ok || op != "bvmul" || len(args) != 2 {
			return "", 0, false
		}
		if v, w, ok := litVal(args[1]); ok && w == 64 {
			return args[0], v, true
		}
		if v, w, ok := litVal(args[0]); ok && w == 64 {
			return args[1], v, true
		}
		return "", 0, false
	}
	if pos == "" {
		return "", "", false
	}
	k, es, ok1 := split(pos)
	l, es2, ok2 := split(n)
	if !ok1 || !ok2 || es != es2 || es < 2 || es > 1<<20 || s.konst >= es {
		return "", "", false
	}
	return k, l, true
}

// addrDiff returns a term equal to a - at (64-bit, modular) with common addends cancelled.
func (x *Exec) addrDiff(a, at string) string {
	s := &linSum{atoms: map[string]int64{}}
	x.linAdd(s, a, 1, 0)
	x.linAdd(s, at, -1, 0)
	var pos, neg []string
	var keys []string
	for k := range s.atoms {
		keys = append(keys, k)
	}
	sort.Strings(keys)
	for _, k := range keys {
		c := s.atoms[k]
		for ; c > 0; c-- {
			pos = append(pos, k)
		}
		for ; c < 0; c++ {
			neg = append(neg, k)
		}
	}
	if len(pos)+len(neg) > 24 {
		return bvsubw(a, at, 64)
	}
	sum := func(ts []string, k uint64) string {
		r := bvLit(k, 64)
		for _, t := range ts {
			r = bvadd(r, t)
		}
		return r
	}
	if len(neg) == 0 {
		return sum(pos, s.konst)
	}
	// the constant stays outside so that the symbolic part (base - base') is one
	// shared subterm of all the byte addresses of an object
	return bvadd(bvLit(s.konst, 64), bvsubw(sum(pos, 0), sum(neg, 0), 64))
}
