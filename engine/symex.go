package main

import (
	"fmt"
	"go/constant"
	"go/token"
	"go/types"
	"os"
	"regexp"
	"sort"
	"strconv"
	"strings"

	"golang.org/x/tools/go/ssa"
)

type Outcome struct {
	st      *State
	results []V
}

type recorder struct {
	body map[*ssa.BasicBlock]bool
	mods map[string]bool
	// direct heap stores at addresses fixed before the loop (see noteStore)
	stores      []storeRange
	freshStores bool
	unstable    bool
	startFresh  int
	fn          *ssa.Function
	depth       int
	calls       map[string]*types.Signature // contract calls made by the body (by short name)
}

func (st *State) noteMod(key string) {
	for _, r := range st.x.recStack {
		r.mods[key] = true
	}
}

// noteStore records a direct heap store of n bytes at address a for the loops being recorded.
func (st *State) noteStore(a string, n uint64) {
	for _, r := range st.x.recStack {
		if st.storeFresh {
			// into an object allocated by this function: above the allocator's base, whatever the index
			r.freshStores = true
			continue
		}
		if !stableTerm(a, r.startFresh) {
			r.unstable = true
			continue
		}
		dup := false
		for _, s := range r.stores {
			if s.at == a && s.n == n {
				dup = true
			}
		}
		if !dup {
			r.stores = append(r.stores, storeRange{a, n})
		}
	}
}

type storeRange struct {
	at string
	n  uint64
}

var freshSuffix = regexp.MustCompile(`_([0-9]+)\b`)

// stableTerm reports whether every engine-generated name in t was introduced
// before the counter value start, i.e. the term denotes a value fixed before the loop.
func stableTerm(t string, start int) bool {
	for _, m := range freshSuffix.FindAllStringSubmatch(t, -1) {
		if n, err := strconv.Atoi(m[1]); err != nil || n > start {
			return false
		}
	}
	return true
}

type unsupported struct{ msg string }

func unsup(format string, a ...interface{}) { panic(unsupported{fmt.Sprintf(format, a...)}) }

const maxLen = uint64(1) << 40
const maxAddr = uint64(1) << 47

// ---------------------------------------------------------------------------
// symbolic inputs and type invariants

func (st *State) symbolic(t types.Type, name string, prov func(ls leafShape) *Prov, input bool) V {
	i := 0
	v := build(t, func(ls leafShape) V {
		i++
		st.x.fresh++
		n := fmt.Sprintf("%s_%d_%d", sanitize(name), i, st.x.fresh)
		var out V
		switch ls.K {
		case KBool:
			st.decl(n, "Bool")
			out = vBool(n)
		case KPtr:
			st.decl(n, sortBV(64))
			var p *Prov
			if prov != nil {
				p = prov(ls)
			}
			if p != nil && strings.HasPrefix(p.Space, "B:") && st.mem[p.Space] == nil {
				an := fmt.Sprintf("B_%s_%d", sanitize(p.Space[2:]), st.x.fresh)
				st.decl(an, sortMem)
				st.mem[p.Space] = &MemVer{kind: mBase, term: an}
			}
			out = vPtr(n, p)
			// user-space addresses; the object a pointer parameter refers to (less than 16 MB) lies below
			// the first address the model's allocator hands out, so it never overlaps a fresh allocation
			if input {
				st.assume(app("bvult", n, bvLit(maxAddr-(1<<24), 64)))
			} else {
				// results of calls and loop-carried pointers may be objects allocated during the call
				st.assume(app("bvult", n, bvLit(uint64(1)<<63, 64)))
			}
		default:
			st.decl(n, sortBV(ls.W))
			out = vBV(n, ls.W, ls.Signed)
		}
		if input {
			st.inputs = append(st.inputs, inputSym{Name: n, Desc: fmt.Sprintf("%s#%d", name, i)})
		}
		return out
	})
	st.invInput = input
	st.typeInv(v, t)
	st.invInput = false
	return v
}

// typeInv assumes Go's representation invariants for a value of type t.
func (st *State) typeInv(v V, t types.Type) {
	switch u := t.Underlying().(type) {
	case *types.Slice:
		p, l, c := v.Fs[0], v.Fs[1], v.Fs[2]
		es := uint64(sizeof(u.Elem()))
		if es == 0 {
			es = 1
		}
		st.assume(and(app("bvsle", bvLit(0, 64), l.T), app("bvsle", l.T, c.T), app("bvult", c.T, bvLit(maxLen, 64))))
		sp := spaceOf(p, "")
		if !st.invInput {
			// a value produced during the call may live in memory allocated during it
			st.assume(app("bvult", p.T, bvLit(uint64(1)<<63, 64)))
			st.assume(implies(eq(p.T, bvLit(0, 64)), eq(c.T, bvLit(0, 64))))
			break
		}
		st.assume(app("bvult", p.T, bvLit(maxAddr, 64)))
		st.assume(implies(eq(p.T, bvLit(0, 64)), eq(c.T, bvLit(0, 64))))
		if sp == "B" || sp == "H" {
			if brk, ok := st.brk[sp]; ok {
				st.assume(app("bvule", bvadd(p.T, app("bvmul", c.T, bvLit(es, 64))), brk))
			}
		}
	case *types.Basic:
		if u.Kind() == types.String {
			p, l := v.Fs[0], v.Fs[1]
			st.assume(and(app("bvsle", bvLit(0, 64), l.T), app("bvult", l.T, bvLit(maxLen, 64))))
			if !st.invInput {
				st.assume(app("bvult", p.T, bvLit(uint64(1)<<63, 64)))
				break
			}
			st.assume(app("bvult", p.T, bvLit(maxAddr, 64)))
			if brk, ok := st.brk["B"]; ok {
				st.assume(app("bvule", bvadd(p.T, l.T), brk))
			}
		}
	case *types.Struct:
		for i := 0; i < u.NumFields(); i++ {
			st.typeInv(v.Fs[i], u.Field(i).Type())
		}
	case *types.Tuple:
		for i := 0; i < u.Len(); i++ {
			st.typeInv(v.Fs[i], u.At(i).Type())
		}
	case *types.Array:
		if u.Len() <= 64 {
			for i := range v.Fs {
				st.typeInv(v.Fs[i], u.Elem())
			}
		}
	}
}

func provForParam(name string, t types.Type, isRecv bool) func(ls leafShape) *Prov {
	return func(ls leafShape) *Prov {
		if ls.ByteElem {
			return &Prov{Space: "B:" + name, Region: "in:" + name}
		}
		if isRecv {
			return &Prov{Space: "H", Region: "meta"}
		}
		if _, ok := t.Underlying().(*types.Interface); ok {
			return &Prov{Space: "H", Region: "meta"}
		}
		return &Prov{Space: "H", Region: "arg:" + name}
	}
}

// ---------------------------------------------------------------------------
// function keys

const modPrefix = "github.com/philpearl/plenc"

func shortPkg(p string) string {
	if p == modPrefix {
		return "plenc"
	}
	if strings.HasPrefix(p, modPrefix+"/") {
		return strings.TrimPrefix(p, modPrefix+"/")
	}
	return p
}

func typeKey(t types.Type) string {
	s := types.TypeString(t, func(p *types.Package) string { return shortPkg(p.Path()) })
	return s
}

// fnKey gives the contract key of a function: pkg.Func, pkg.T.Method,
// pkg.*T.Method, pkg.G[int16].Method.
func fnKey(fn *ssa.Function) string {
	name := fn.Name()
	if fn.Parent() != nil {
		return fnKey(fn.Parent()) + "$" + strings.TrimPrefix(name, fn.Parent().Name()+"$")
	}
	pkg := ""
	if fn.Pkg != nil {
		pkg = shortPkg(fn.Pkg.Pkg.Path())
	} else if fn.Object() != nil && fn.Object().Pkg() != nil {
		pkg = shortPkg(fn.Object().Pkg().Path())
	}
	if recv := fn.Signature.Recv(); recv != nil {
		rt := recv.Type()
		star := ""
		if p, ok := rt.(*types.Pointer); ok {
			rt = p.Elem()
			star = "*"
		}
		tn := types.TypeString(rt, func(p *types.Package) string { return "" })
		if named, ok := rt.(*types.Named); ok && named.Obj().Pkg() != nil {
			pkg = shortPkg(named.Obj().Pkg().Path())
		}
		// instantiated methods are named Read[int16]: the type arguments already appear in the receiver
		if i := strings.Index(name, "["); i >= 0 {
			name = name[:i]
		}
		return pkg + "." + star + tn + "." + name
	}
	if i := strings.Index(name, "["); i >= 0 && len(fn.TypeArgs()) > 0 {
		var as []string
		for _, a := range fn.TypeArgs() {
			as = append(as, types.TypeString(a, func(p *types.Package) string { return "" }))
		}
		name = name[:i] + "[" + strings.Join(as, ",") + "]"
	}
	return pkg + "." + name
}

// genericKey replaces concrete type arguments by the type parameter names.
func genericKey(fn *ssa.Function) (string, map[string]types.Type) {
	if recv := fn.Signature.Recv(); recv != nil {
		// methods (including synthesised wrappers for promoted methods): use the receiver's type arguments
		rt := recv.Type()
		if p, ok := rt.(*types.Pointer); ok {
			rt = p.Elem()
		}
		if named, ok := rt.(*types.Named); ok && named.TypeArgs() != nil && named.TypeArgs().Len() > 0 {
			key := fnKey(fn)
			tps := named.Origin().TypeParams()
			tp := map[string]types.Type{}
			var to []string
			for i := 0; i < named.TypeArgs().Len() && i < tps.Len(); i++ {
				tp[tps.At(i).Obj().Name()] = named.TypeArgs().At(i)
				to = append(to, tps.At(i).Obj().Name())
			}
			lb, rb := strings.Index(key, "["), strings.Index(key, "]")
			if lb >= 0 && rb > lb {
				return key[:lb+1] + strings.Join(to, ",") + key[rb:], tp
			}
		}
		return "", nil
	}
	if len(fn.TypeArgs()) == 0 {
		return "", nil
	}
	key := fnKey(fn)
	tps := fn.TypeParams()
	if tps == nil {
		return "", nil
	}
	tp := map[string]types.Type{}
	var from, to []string
	for i, a := range fn.TypeArgs() {
		if i < tps.Len() {
			tp[tps.At(i).Obj().Name()] = a
			from = append(from, types.TypeString(a, func(p *types.Package) string { return "" }))
			to = append(to, tps.At(i).Obj().Name())
		}
	}
	lb, rb := strings.Index(key, "["), strings.Index(key, "]")
	if lb < 0 || rb < lb {
		return "", tp
	}
	return key[:lb+1] + strings.Join(to, ",") + key[rb:], tp
}

func (x *Exec) contractFor(fn *ssa.Function) (*Contract, map[string]types.Type) {
	key := fnKey(fn)
	if c, ok := x.specs.Contracts[key]; ok {
		_, tp := genericKey(fn)
		return c, tp
	}
	if gk, tp := genericKey(fn); gk != "" {
		if c, ok := x.specs.Contracts[gk]; ok {
			return c, tp
		}
	}
	return nil, nil
}

// ---------------------------------------------------------------------------
// operands

func (x *Exec) typeID(t types.Type) string {
	k := typeKey(t)
	id, ok := x.typeIDs[k]
	if !ok {
		id = uint64(len(x.typeIDs)+1) * 0x100
		x.typeIDs[k] = id
	}
	return bvLit(0x7000000000+id, 64)
}

func pointerShaped(t types.Type) bool {
	switch u := t.Underlying().(type) {
	case *types.Pointer, *types.Map, *types.Chan, *types.Signature:
		return true
	case *types.Basic:
		return u.Kind() == types.UnsafePointer
	}
	return false
}

func (st *State) constString(s string) V {
	// one address per distinct constant: the same literal is the same string wherever it is written
	if v, ok := st.strConst[s]; ok {
		return v
	}
	v := st.constString1(s)
	if st.strConst == nil {
		st.strConst = map[string]V{}
	}
	st.strConst[s] = v
	return v
}

func (st *State) constString1(s string) V {
	st.x.fresh++
	n := fmt.Sprintf("str_%d", st.x.fresh)
	st.decl(n, sortBV(64))
	st.assume(and(app("bvult", n, bvLit(maxAddr, 64)), not(eq(n, bvLit(0, 64)))))
	if brk, ok := st.brk["B"]; ok {
		st.assume(app("bvule", bvadd(n, bvLit(uint64(len(s)), 64)), brk))
	}
	space := fmt.Sprintf("B:const%d", st.x.fresh)
	an := fmt.Sprintf("B_const_%d", st.x.fresh)
	st.decl(an, sortMem)
	st.mem[space] = &MemVer{kind: mBase, term: an}
	if len(s) <= 256 {
		for i := 0; i < len(s); i++ {
			st.assume(eq(app("select", an, bvadd(n, bvLit(uint64(i), 64))), bvLit(uint64(s[i]), 8)))
		}
	}
	return vTuple(vPtr(n, &Prov{Space: space, Region: "const"}), vBV(bvLit(uint64(len(s)), 64), 64, true))
}

func (st *State) baseMem(space string) *MemVer {
	m := st.mem[space]
	for m != nil && m.base != nil {
		m = m.base
	}
	return m
}

func (st *State) operand(v ssa.Value) V {
	switch c := v.(type) {
	case *ssa.Const:
		return st.constant(c)
	case *ssa.Global:
		return st.x.globalAddr(c)
	case *ssa.Function:
		return V{K: KFunc, Fn: &Closure{fn: c}}
	case *ssa.Builtin:
		return V{K: KFunc, Fn: &Closure{builtin: c.Name()}}
	}
	val, ok := st.env[v]
	if !ok {
		unsup("value %s (%T) has no binding", v.Name(), v)
	}
	return val
}

func (st *State) constant(c *ssa.Const) V {
	t := c.Type()
	if c.Value == nil {
		return zeroOf(t)
	}
	switch u := t.Underlying().(type) {
	case *types.Basic:
		switch {
		case u.Info()&types.IsBoolean != 0:
			if constant.BoolVal(c.Value) {
				return vBool("true")
			}
			return vBool("false")
		case u.Info()&types.IsString != 0:
			return st.constString(constant.StringVal(c.Value))
		case u.Info()&types.IsInteger != 0:
			w, s, _ := basicInfo(u)
			if u.Kind() == types.Uintptr {
				w, s = 64, false
			}
			if i64, ok := constant.Int64Val(c.Value); ok {
				v := vBV(bvLit(uint64(i64), w), w, s)
				if u.Kind() == types.Uintptr {
					v.K = KPtr
				}
				return v
			}
			u64, _ := constant.Uint64Val(c.Value)
			return vBV(bvLit(u64, w), w, s)
		case u.Info()&types.IsFloat != 0:
			w, _, _ := basicInfo(u)
			f, _ := constant.Float64Val(c.Value)
			if f == 0 {
				return vBV(bvLit(0, w), w, false)
			}
			if w == 64 {
				return vBV(bvLit(float64bits(f), 64), 64, false)
			}
			return vBV(bvLit(uint64(float32bits(float32(f))), 32), 32, false)
		}
	}
	unsup("constant %s of type %s", c, t)
	return V{}
}

// ---------------------------------------------------------------------------
// memory access of typed values

func (st *State) loadTyped(addr V, t types.Type) V {
	space := spaceOf(addr, "H")
	var srcRegion string
	if addr.Prov != nil {
		srcRegion = addr.Prov.Region
	}
	if srcRegion == "meta" && space == "H" {
		st.loadMeta = true
		defer func() { st.loadMeta = false }()
	}
	if (strings.HasPrefix(srcRegion, "fresh#") || strings.HasPrefix(srcRegion, "arg:")) && space == "H" {
		// objects allocated by this function and the objects behind (non-receiver or mutable) pointer
		// parameters are not codec metadata
		st.loadFresh = true
		defer func() { st.loadFresh = false }()
	}
	if srcRegion == "meta" && space == "H" {
		st.assumeMeta(addr.T, sizeof(t))
		st.x.noteAssumption("codec metadata (receiver-reachable memory) is immutable and disjoint from decode targets (ismeta frame)")
	}
	defer func() {
		// values read from memory are well-formed Go values (memory safety of the surrounding program)
		// note: applied by the caller below
	}()
	return st.withTypeInv(t, build(t, func(ls leafShape) V {
		a := bvadd(addr.T, bvLit(uint64(ls.Off), 64))
		switch ls.K {
		case KBool:
			return vBool(st.define("ld", "Bool", not(eq(st.load8(space, a), bvLit(0, 8)))))
		case KPtr:
			t := st.define("ld", sortBV(64), st.loadN(space, a, 8))
			if p, ok := st.shadow[space+"@"+a]; ok {
				return vPtr(t, p)
			}
			if ls.ByteElem {
				return vPtr(t, &Prov{Space: "B", Region: "owned"})
			}
			reg := "heap"
			if srcRegion == "meta" {
				reg = "meta"
			}
			return vPtr(t, &Prov{Space: "H", Region: reg})
		}
		return vBV(st.define("ld", sortBV(ls.W), st.loadN(space, a, ls.W/8)), ls.W, ls.Signed)
	}))
}

// assumeMeta: every byte of an object read from codec metadata is metadata.
func (st *State) assumeMeta(a string, size int64) {
	if size > 256 {
		size = 256
	}
	key := fmt.Sprintf("%s|%d", a, size)
	if st.lemmaSeen == nil {
		st.lemmaSeen = map[string]bool{}
	}
	if st.lemmaSeen["meta:"+key] {
		return
	}
	st.lemmaSeen["meta:"+key] = true
	var cs []string
	for i := int64(0); i < size; i++ {
		cs = append(cs, app("ismeta", bvadd(a, bvLit(uint64(i), 64))))
	}
	st.assume(and(cs...))
}

// withTypeInv assumes the representation invariants of slices and strings for a
// value that was read from memory.
func (st *State) withTypeInv(t types.Type, v V) V {
	switch u := t.Underlying().(type) {
	case *types.Slice:
		st.assume(and(app("bvsle", bvLit(0, 64), v.Fs[1].T), app("bvsle", v.Fs[1].T, v.Fs[2].T), app("bvult", v.Fs[2].T, bvLit(maxLen, 64))))
		// every modelled address (parameters below 2^47, allocations below 2^62) is below 2^63: object extents never wrap
		st.assume(app("bvult", v.Fs[0].T, bvLit(uint64(1)<<63, 64)))
	case *types.Basic:
		if u.Kind() == types.String {
			st.assume(and(app("bvsle", bvLit(0, 64), v.Fs[1].T), app("bvult", v.Fs[1].T, bvLit(maxLen, 64))))
			st.assume(app("bvult", v.Fs[0].T, bvLit(uint64(1)<<63, 64)))
		}
	}
	return v
}

func (st *State) storeTyped(addr V, val V, t types.Type) {
	st.storeFresh = addr.Prov != nil && addr.Prov.Space == "H" && strings.HasPrefix(addr.Prov.Region, "fresh#")
	defer func() { st.storeFresh = false }()
	space := spaceOf(addr, "H")
	if space == "H" || space == "G" {
		st.materialize(val, t)
	}
	var ls []leafShape
	flatten(t, 0, &ls)
	var vs []V
	leaves(val, &vs)
	if len(ls) != len(vs) {
		unsup("store shape mismatch for %s: %d leaves vs %d", t, len(ls), len(vs))
	}
	for i, l := range ls {
		a := bvadd(addr.T, bvLit(uint64(l.Off), 64))
		if vs[i].T == "" {
			// a function value (closure, bound method): an opaque non-nil word
			fv := st.freshConst("fnval", sortBV(l.W))
			st.assume(not(eq(fv, bvLit(0, l.W))))
			vs[i] = V{K: vs[i].K, T: fv, W: l.W}
		}
		switch l.K {
		case KBool:
			st.storeN(space, a, boolToBV(vs[i].T, 8), 1)
		case KPtr:
			st.storeN(space, a, vs[i].T, 8)
			if old, ok := st.shadow[space+"@"+a]; ok && strings.HasPrefix(old.Space, "H:sep") {
				// (a nil pointer belongs to no region: clearing the slot, as the in-place form of `*p = T{...}` does
				// before it stores the fields, is fine; the slice is simply empty until something is stored again)
				if lv, _, isLit := litVal(vs[i].T); isLit && lv == 0 {
					delete(st.shadow, space+"@"+a)
					continue
				}
				if vs[i].Prov == nil || vs[i].Prov.Space != old.Space {
					unsup("a slice declared 'separate' is replaced by one that is not in its region")
				}
			}
			if vs[i].Prov != nil {
				st.shadow[space+"@"+a] = vs[i].Prov
			} else {
				delete(st.shadow, space+"@"+a)
			}
		default:
			st.storeN(space, a, vs[i].T, l.W/8)
		}
	}
	if space == "H" {
		// a direct store: its byte range is recorded so that a loop cut can keep the rest of the heap
		st.noteMod("H:store")
		st.noteStore(addr.T, uint64(sizeof(t)))
	} else {
		st.noteMod(space)
	}
}

// newByteRegion creates a fresh byte region (its own memory space) of n bytes
// whose contents are given by byteAt; the address is bump-allocated so that it
// is distinct from every other region when materialised in the global B.
func (st *State) newByteRegion(n string, byteAt func(s *State, k string) string) V {
	addr := st.bump("B", n)
	st.regions++
	st.x.fresh++
	space := fmt.Sprintf("B:r%d_%d", st.regions, st.x.fresh)
	base := &MemVer{kind: mBase, term: "zeromem"}
	name := st.newMemName("MBr")
	st.mem[space] = &MemVer{kind: mWrite, term: name, base: base, at: addr, n: n, byteAt: byteAt}
	st.noteMod("B+")
	return vPtr(addr, &Prov{Space: space, Region: fmt.Sprintf("fresh#%d", st.regions)})
}

// materialize copies the contents of byte sequences held in private spaces
// into the global byte memory B when their headers are stored into the heap,
// so that a later load through the header finds the bytes.
func (st *State) materialize(val V, t types.Type) {
	switch u := t.Underlying().(type) {
	case *types.Struct:
		for i := 0; i < u.NumFields(); i++ {
			st.materialize(val.Fs[i], u.Field(i).Type())
		}
		return
	case *types.Slice:
		if !isByte(u.Elem()) {
			return
		}
	case *types.Basic:
		if u.Info()&types.IsString == 0 {
			return
		}
	default:
		return
	}
	if val.K != KTuple || len(val.Fs) < 2 {
		return
	}
	p := val.Fs[0]
	if p.Prov == nil || !strings.HasPrefix(p.Prov.Space, "B:") {
		return
	}
	snap := st.mem[p.Prov.Space]
	if snap == nil {
		return
	}
	st.writeSeq("B", p.T, val.Fs[1].T, func(s *State, k string) string {
		snap.facts(s, bvadd(p.T, k))
		return app("select", snap.term, bvadd(p.T, k))
	})
	st.noteMod("B+")
}

// alloc creates a fresh zeroed object.
func (st *State) allocLocal(t types.Type) V {
	st.nlocal++
	st.x.fresh++
	space := fmt.Sprintf("L%d_%d", st.nlocal, st.x.fresh)
	st.mem[space] = &MemVer{kind: mBase, term: "zeromem"}
	return vPtr(bvLit(0x1000, 64), &Prov{Space: space, Region: "local"})
}

// allocFresh bump-allocates n bytes in B or H and returns the address.
func (st *State) allocFresh(space string, nbytes string, zero bool) V {
	addr := st.bump(space, nbytes)
	st.regions++
	p := vPtr(addr, &Prov{Space: space, Region: fmt.Sprintf("fresh#%d", st.regions)})
	if zero {
		st.writeSeq(space, addr, nbytes, func(*State, string) string { return bvLit(0, 8) })
		st.mem[space].fresh = true
	}
	st.noteMod(space + "+")
	return p
}

// ---------------------------------------------------------------------------
// running functions

type Closure struct {
	fn       *ssa.Function
	bindings []V
	builtin  string
}

func (x *Exec) loopInfoFor(fn *ssa.Function) *loopInfo {
	li := x.loops[fn]
	if li == nil {
		li = findLoops(fn)
		x.loops[fn] = li
	}
	return li
}

func (x *Exec) runFunc(st *State, fn *ssa.Function, args []V, bindings []V) []Outcome {
	if len(fn.Blocks) == 0 {
		unsup("function %s has no body", fn)
	}
	depth := len(st.frames)
	if depth > 12 {
		unsup("inline depth exceeded at %s", fn)
	}
	fr := &Frame{fn: fn, depth: depth, visits: map[*ssa.BasicBlock]int{}, loopRec: map[*ssa.BasicBlock]*loopRec{}, names: map[types.Object]V{}, bindings: bindings, args: args}
	st.frames = append(st.frames, fr)
	for i, p := range fn.Params {
		st.env[p] = args[i]
	}
	for i, fv := range fn.FreeVars {
		st.env[fv] = bindings[i]
	}
	outs := x.runBlock(st, fn.Blocks[0], nil)
	for _, o := range outs {
		o.st.frames = o.st.frames[:depth]
	}
	return outs
}

func (x *Exec) runBlock(st *State, b *ssa.BasicBlock, prev *ssa.BasicBlock) []Outcome {
	fr := st.top()
	for i := len(x.recStack) - 1; i >= 0; i-- {
		r := x.recStack[i]
		if r.fn == fr.fn && r.depth == fr.depth && !r.body[b] {
			return nil // dry run left the loop
		}
	}
	li := x.loopInfoFor(fr.fn)
	ld := li.byHead[b]
	// phi values for this edge
	var phis []*ssa.Phi
	var phiVals []V
	for _, in := range b.Instrs {
		phi, ok := in.(*ssa.Phi)
		if !ok {
			break
		}
		idx := -1
		for i, p := range b.Preds {
			if p == prev {
				idx = i
				break
			}
		}
		if idx < 0 {
			unsup("phi without matching predecessor in %s", fr.fn)
		}
		phis = append(phis, phi)
		phiVals = append(phiVals, st.operand(phi.Edges[idx]))
	}
	for i, phi := range phis {
		st.env[phi] = phiVals[i]
	}
	if ld != nil {
		var spec *LoopSpec
		isTop := fr.depth == 0
		con := x.con
		if !isTop {
			con, _ = x.contractFor(fr.fn)
		}
		if con != nil {
			spec = con.Loops[ld.ordinal]
		}
		fromBack := prev != nil && ld.body[prev]
		if spec == nil && !isTop && !constBoundLoop(ld) {
			// a loop of a helper executed in place that has no annotation and no constant bound: cut with the
			// empty invariant (everything the body may change is unknown afterwards). Sound, imprecise; its
			// termination is not checked.
			spec = &LoopSpec{}
			x.noteAssumption(fmt.Sprintf("%s loop %d (executed in place, no annotation): cut with the empty invariant, termination not checked", fnKey(fr.fn), ld.ordinal))
		}
		if spec != nil && spec.Unroll > 0 || spec == nil && !isTop {
			limit := 12
			if spec != nil {
				limit = spec.Unroll
			}
			fr.visits[b]++
			if fr.visits[b] > limit+1 {
				if spec == nil {
					unsup("inlined loop in %s exceeded the default unrolling", fr.fn)
				}
				x.oblige(st, x.oname(fr, fmt.Sprintf("loop%d.unwind", ld.ordinal)), "unwind", x.safetyTags(fr), "false", x.posOf(ld.pos),
					fmt.Sprintf("loop %d needs no more than %d iterations", ld.ordinal, limit))
				return nil
			}
		} else {
			if spec == nil {
				x.genFail(x.oname(fr, fmt.Sprintf("loop%d.invariant", ld.ordinal)), "invariant", x.safetyTags(fr), x.posOf(ld.pos),
					fmt.Sprintf("loop %d of %s has no invariant/unroll annotation", ld.ordinal, fnKey(fr.fn)))
				return nil
			}
			if fromBack {
				x.checkLoop(st, fr, ld, spec, false)
				return nil
			}
			for _, phi := range phis {
				if phi.Comment != "" {
					if fr.entryVals == nil {
						fr.entryVals = map[string]V{}
					}
					fr.entryVals["entry_"+phi.Comment] = st.env[phi]
				}
			}
			x.checkLoop(st, fr, ld, spec, true)
			x.cutLoop(st, fr, ld, spec, phis)
		}
	}
	return x.runInstrs(st, b, len(phis))
}

// noteLoopDone: the function under analysis leaves one of its loops through the loop's head (its condition
// has become false, or the range is exhausted): post-conditions see this as loopdone_<k>. Any other way out
// of the loop (a return or break from the body) leaves loopdone_<k> false.
func (x *Exec) noteLoopDone(st *State, from, to *ssa.BasicBlock) {
	fr := st.top()
	if fr == nil || fr.depth != 0 {
		return
	}
	if ld := x.loopInfoFor(fr.fn).byHead[from]; ld != nil && !ld.body[to] {
		if st.loopDone == nil {
			st.loopDone = map[int]bool{}
		}
		st.loopDone[ld.ordinal] = true
		if st.exitMem == nil {
			st.exitMem = map[int]map[string]*MemVer{}
		}
		st.exitMem[ld.ordinal] = snapshotMem(st)
		// the loop-carried variables as they are when the loop is left: exit_<name> in post-conditions
		for _, in := range from.Instrs {
			phi, ok := in.(*ssa.Phi)
			if !ok {
				break
			}
			if phi.Comment == "" {
				continue
			}
			if v, ok := st.env[phi]; ok {
				if st.exitVals == nil {
					st.exitVals = map[string]V{}
				}
				st.exitVals["exit_"+phi.Comment] = v
			}
		}
	}
}

// constBoundLoop: the head of the loop compares against a small integer constant (such a loop is unrolled).
func constBoundLoop(ld *loopDesc) bool {
	for _, in := range ld.head.Instrs {
		b, ok := in.(*ssa.BinOp)
		if !ok {
			continue
		}
		switch b.Op {
		case token.LSS, token.LEQ, token.GTR, token.GEQ, token.NEQ:
		default:
			continue
		}
		for _, o := range []ssa.Value{b.X, b.Y} {
			if c, ok := o.(*ssa.Const); ok && c.Value != nil && c.Value.Kind() == constant.Int {
				if v, exact := constant.Int64Val(c.Value); exact && v >= -16 && v <= 16 {
					return true
				}
			}
		}
	}
	return false
}

// loopEnv builds the contract environment at a loop head.
func (x *Exec) loopEnv(st *State, fr *Frame, ld *loopDesc) *CEnv {
	vars := map[string]V{}
	x.bindParams(vars, fr.fn, fr.args)
	// entry values of the parameters stay available as <name>0 (a loop variable may shadow the name)
	for i, n := range declParamNames(fr.fn) {
		if i < len(fr.args) {
			vars[n+"0"] = fr.args[i]
		}
	}
	// named locals visible at the loop, by their latest debug binding
	for obj, v := range fr.names {
		if obj.Pos() < ld.pos || true {
			if _, taken := vars[obj.Name()]; !taken || obj.Pos() <= ld.pos {
				if prevObj := x.shadowCheck(fr, obj, ld); prevObj {
					vars[obj.Name()] = v
				}
			}
		}
	}
	for _, in := range ld.head.Instrs {
		phi, ok := in.(*ssa.Phi)
		if !ok {
			break
		}
		if phi.Comment != "" {
			vars[phi.Comment] = st.env[phi]
		}
	}
	for k, v := range fr.entryVals {
		vars[k] = v
	}
	// range-over-slice loops: rangelen is the length evaluated once before the loop
	for _, in := range ld.head.Instrs {
		if b, ok := in.(*ssa.BinOp); ok && b.Op == token.LSS {
			if inc, ok := b.X.(*ssa.BinOp); ok && inc.Op == token.ADD {
				if phi, ok := inc.X.(*ssa.Phi); ok && phi.Comment == "rangeindex" {
					if v, has := st.env[b.Y]; has {
						vars["rangelen"] = v
					} else if c, isC := b.Y.(*ssa.Const); isC {
						vars["rangelen"] = st.constant(c)
					}
				}
			}
		}
	}
	// contract calls of the current iteration: called_<name>, call_<name>_arg<i>, call_<name>_r<i>
	recs := fr.lastCall
	if lr := fr.loopRec[ld.head]; lr != nil && lr.headSeq > 0 {
		recs = map[string]callRec{}
		for n, r := range fr.lastCall {
			if r.seq > lr.headSeq {
				recs[n] = r
			}
		}
	}
	x.bindCallRecords(st, fr.fn, vars, recs)
	_, tp := x.contractFor(fr.fn)
	if fr.depth == 0 {
		tp = x.tparam
	}
	return &CEnv{st: st, oldMem: fr.entryMem, headMem: fr.headMem, vars: vars, cells: x.localCells(st, fr.fn), tparam: tp, fn: fnKey(fr.fn)}
}

// localCells: the variables of fn that live in memory (address-taken or captured by a function
// literal), by name: clauses read them in the memory they are evaluated in, so that a loop
// invariant or a post-condition sees the variable's current value and not the last value some
// instruction happened to load.
func (x *Exec) localCells(st *State, fn *ssa.Function) map[string]V {
	count := map[string]int{}
	for _, b := range fn.Blocks {
		for _, in := range b.Instrs {
			if a, ok := in.(*ssa.Alloc); ok && a.Comment != "" {
				count[a.Comment]++
			}
		}
	}
	out := map[string]V{}
	for _, b := range fn.Blocks {
		for _, in := range b.Instrs {
			a, ok := in.(*ssa.Alloc)
			if !ok || a.Comment == "" || count[a.Comment] != 1 {
				continue
			}
			if v, has := st.env[a]; has && v.K == KPtr {
				v.Typ = a.Type()
				out[a.Comment] = v
			}
		}
	}
	return out
}

// shadowCheck reports whether obj is the variable of that name visible at the loop position.
func (x *Exec) shadowCheck(fr *Frame, obj types.Object, ld *loopDesc) bool {
	if obj.Parent() == nil {
		return true
	}
	sc := obj.Parent()
	if !ld.pos.IsValid() {
		return true
	}
	// visible if the declaring scope contains the loop position (or the loop is inside it)
	return sc.Pos() <= ld.pos && ld.pos <= sc.End() && obj.Pos() <= ld.pos
}

func (x *Exec) checkLoop(st *State, fr *Frame, ld *loopDesc, spec *LoopSpec, entry bool) {
	which := "preserved"
	if entry {
		which = "entry"
	}
	env := x.loopEnv(st, fr, ld)
	env.prove = true
	if ri, ok := env.vars["rangeindex"]; ok && ri.K == KBV {
		// structural invariant of every range-over-slice loop
		x.oblige(st, x.oname(fr, fmt.Sprintf("loop%d.rangeindex.%s", ld.ordinal, which)), "invariant", x.safetyTags(fr),
			and(app("bvsle", bvLit(^uint64(0), ri.W), ri.T), app("bvslt", ri.T, bvLit(maxLen, ri.W))), x.posOf(ld.pos), "-1 <= rangeindex < 2^40")
	}
	fidx := -1
	for k, f := range st.frames {
		if f == fr {
			fidx = k
		}
	}
	for i, inv := range spec.Invariants {
		name := x.oname(fr, fmt.Sprintf("loop%d.inv%d.%s", ld.ordinal, i+1, which))
		// each clause is proved on a copy of the state: its witnesses and the instances made for
		// them do not burden the proofs that follow
		ps, penv := st, env
		if fidx >= 0 && os.Getenv("PLENCVC_NOFORK") == "" {
			ps = st.fork()
			penv = x.loopEnv(ps, ps.frames[fidx], ld)
			penv.prove = true
		}
		t, err := penv.evalBool(inv.Expr)
		if err != nil {
			x.genFail(name, "invariant", inv.Tags, x.posOf(ld.pos), err.Error())
			continue
		}
		x.oblige(ps, name, "invariant", x.tagsOr(inv.Tags, fr), t, x.posOf(ld.pos), inv.Text)
	}
	if entry {
		for i, ec := range spec.Entries {
			name := x.oname(fr, fmt.Sprintf("loop%d.entry%d", ld.ordinal, i+1))
			ps, penv := st, env
			if fidx >= 0 {
				ps = st.fork()
				penv = x.loopEnv(ps, ps.frames[fidx], ld)
				penv.prove = true
			}
			t, err := penv.evalBool(ec.Expr)
			if err != nil {
				x.genFail(name, "invariant", ec.Tags, x.posOf(ld.pos), err.Error())
				continue
			}
			x.oblige(ps, name, "invariant", x.tagsOr(ec.Tags, fr), t, x.posOf(ld.pos), "when the loop is entered: "+ec.Text)
		}
	}
	if !entry {
		for i, sc := range spec.Steps {
			name := x.oname(fr, fmt.Sprintf("loop%d.step%d", ld.ordinal, i+1))
			ps, penv := st, env
			if fidx >= 0 {
				ps = st.fork()
				penv = x.loopEnv(ps, ps.frames[fidx], ld)
				penv.prove = true
			}
			t, err := penv.evalBool(sc.Expr)
			if err != nil {
				x.genFail(name, "invariant", sc.Tags, x.posOf(ld.pos), err.Error())
				continue
			}
			x.oblige(ps, name, "invariant", x.tagsOr(sc.Tags, fr), t, x.posOf(ld.pos), "each iteration: "+sc.Text)
		}
	}
	if !entry && spec.Decreases != nil {
		rec := fr.loopRec[ld.head]
		name := x.oname(fr, fmt.Sprintf("loop%d.decreases", ld.ordinal))
		env.prove = false
		m, err := env.evalAny(spec.Decreases.Expr)
		if err != nil || rec == nil || !rec.hasMeasure {
			msg := "no measure recorded at loop head"
			if err != nil {
				msg = err.Error()
			}
			x.genFail(name, "decreases", x.safetyTags(fr), x.posOf(ld.pos), msg)
			return
		}
		m = coerce(m, 64, true)
		goal := and(app("bvsge", rec.measure, bvLit(0, m.W)), app("bvslt", m.T, rec.measure))
		x.oblige(st, name, "decreases", x.tagsOr(spec.Decreases.Tags, fr), goal, x.posOf(ld.pos), "decreases "+spec.Decreases.Text)
	}
}

// calleeShortNames lists the short names of everything fn calls statically or through an interface.
// bindCallRecords binds called_<name>, call_<name>_arg<i> and call_<name>_r<i> for every callee of fn:
// from the recorded calls where there was one, otherwise false and unconstrained values.
func (x *Exec) bindCallRecords(st *State, fn *ssa.Function, vars map[string]V, recs map[string]callRec) {
	for n, sig := range x.calleeSigs(fn) {
		if _, called := recs[n]; called {
			continue
		}
		vars["called_"+n] = vBool("false")
		k := 0
		if sig.Recv() != nil {
			vars[fmt.Sprintf("call_%s_arg0", n)] = st.symbolic(sig.Recv().Type(), "nocall_"+n, nil, false)
			k = 1
		}
		for i := 0; i < sig.Params().Len(); i++ {
			vars[fmt.Sprintf("call_%s_arg%d", n, i+k)] = st.symbolic(sig.Params().At(i).Type(), "nocall_"+n, nil, false)
		}
		for i := 0; i < sig.Results().Len(); i++ {
			vars[fmt.Sprintf("call_%s_r%d", n, i)] = st.symbolic(sig.Results().At(i).Type(), "nocall_"+n, nil, false)
		}
	}
	for n, rec := range recs {
		vars["called_"+n] = vBool("true")
		if rec.maybe != "" {
			vars["called_"+n] = vBool(rec.maybe)
		}
		for i, a := range rec.args {
			vars[fmt.Sprintf("call_%s_arg%d", n, i)] = a
		}
		for i, r := range rec.results {
			vars[fmt.Sprintf("call_%s_r%d", n, i)] = r
		}
	}
}

func (x *Exec) calleeSigs(fn *ssa.Function) map[string]*types.Signature {
	return x.calleeSigsRec(fn, map[*ssa.Function]bool{}, 0)
}

func (x *Exec) calleeSigsRec(fn *ssa.Function, seen map[*ssa.Function]bool, depth int) map[string]*types.Signature {
	seen[fn] = true
	out := map[string]*types.Signature{}
	// the function literals of fn are executed in place: their callees count as fn's
	for _, af := range fn.AnonFuncs {
		for n, s := range x.calleeSigsRec(af, seen, depth) {
			out[n] = s
		}
	}
	for _, b := range fn.Blocks {
		for _, in := range b.Instrs {
			c, ok := in.(ssa.CallInstruction)
			if !ok {
				continue
			}
			cc := c.Common()
			if cc.IsInvoke() {
				if sig, ok := cc.Method.Type().(*types.Signature); ok {
					// the receiver (the interface value) is argument 0
					rs := types.NewSignatureType(types.NewVar(token.NoPos, nil, "recv", cc.Value.Type()), nil, nil, sig.Params(), sig.Results(), sig.Variadic())
					out[shortCallName(ifaceKey(cc.Value.Type(), cc.Method.Name()))] = rs
				}
			} else if f := cc.StaticCallee(); f != nil {
				out[shortCallName(fnKey(f))] = f.Signature
				// a helper without a contract is executed in place: what it calls counts as fn's calls
				if con, _ := x.contractFor(f); (con == nil || con.Inline) && len(f.Blocks) > 0 && !seen[f] && depth < 3 {
					for n, s := range x.calleeSigsRec(f, seen, depth+1) {
						if _, has := out[n]; !has {
							out[n] = s
						}
					}
				}
			}
		}
	}
	return out
}

func (x *Exec) calleeShortNames(fn *ssa.Function) []string {
	seen := map[string]bool{}
	var out []string
	for _, b := range fn.Blocks {
		for _, in := range b.Instrs {
			c, ok := in.(ssa.CallInstruction)
			if !ok {
				continue
			}
			cc := c.Common()
			key := ""
			if cc.IsInvoke() {
				key = ifaceKey(cc.Value.Type(), cc.Method.Name())
			} else if f := cc.StaticCallee(); f != nil {
				key = fnKey(f)
			}
			if key == "" {
				continue
			}
			if n := shortCallName(key); !seen[n] {
				seen[n] = true
				out = append(out, n)
			}
		}
	}
	return out
}

// cutLoop havocs the loop-carried state and assumes the invariant.
func (x *Exec) cutLoop(st *State, fr *Frame, ld *loopDesc, spec *LoopSpec, phis []*ssa.Phi) {
	// dry run to learn which memories the body modifies
	rec := &recorder{body: ld.body, mods: map[string]bool{}, fn: fr.fn, depth: fr.depth, startFresh: x.fresh, calls: map[string]*types.Signature{}}
	x.recStack = append(x.recStack, rec)
	x.recording++
	func() {
		defer func() {
			x.recStack = x.recStack[:len(x.recStack)-1]
			x.recording--
		}()
		dry := st.fork()
		dfr := dry.top()
		dfr.loopRec[ld.head] = &loopRec{}
		x.havocLoop(dry, dfr, ld, phis, map[string]bool{"*": true})
		x.runInstrsDry(dry, ld.head, len(phis))
	}()
	st.loopStores = nil
	if rec.mods["H:store"] && !rec.mods["H"] && !rec.unstable && (len(rec.stores) > 0 || rec.freshStores) && len(rec.stores) <= 16 {
		st.loopStores = rec.stores
		if st.loopStores == nil {
			st.loopStores = []storeRange{}
		}
		st.loopFresh = rec.freshStores
	}
	x.havocLoop(st, fr, ld, phis, rec.mods)
	st.loopStores = nil
	st.loopFresh = false
	// what the iterations before this point called is not known: the record of every callee the body may
	// call becomes "possibly called, with unknown arguments and results" (a callee called before the loop
	// stays called). Without this a post-condition behind the loop would read "never called".
	x.fresh++
	{
		names := make([]string, 0, len(rec.calls))
		for n := range rec.calls {
			names = append(names, n)
		}
		sort.Strings(names)
		for _, n := range names {
			sig := rec.calls[n]
			ur := callRec{seq: x.fresh}
			if _, was := fr.lastCall[n]; !was {
				ur.maybe = st.freshConst("maybecalled_"+n, "Bool")
			}
			if sig.Recv() != nil {
				ur.args = append(ur.args, st.symbolic(sig.Recv().Type(), "loopcall_"+n, nil, false))
			}
			for i := 0; i < sig.Params().Len(); i++ {
				ur.args = append(ur.args, st.symbolic(sig.Params().At(i).Type(), "loopcall_"+n, nil, false))
			}
			for i := 0; i < sig.Results().Len(); i++ {
				ur.results = append(ur.results, st.symbolic(sig.Results().At(i).Type(), "loopcall_"+n, nil, false))
			}
			for _, f := range st.frames {
				if f.lastCall == nil {
					f.lastCall = map[string]callRec{}
				}
				f.lastCall[n] = ur
			}
			if st.topCalls == nil {
				st.topCalls = map[string]callRec{}
			}
			st.topCalls[n] = ur
		}
	}
	x.fresh++
	headSeq := x.fresh // step clauses speak about the calls of one iteration: those recorded after this point
	env := x.loopEnv(st, fr, ld)
	{
		henv := x.loopEnv(st, fr, ld)
		henv.harvest, henv.skolems = true, map[*CExpr]V{}
		for _, g := range spec.GhostDefs {
			x.harvestClause(henv, g.Expr)
		}
		for _, inv := range spec.Invariants {
			x.harvestClause(henv, inv.Expr)
		}
	}
	if ri, ok := env.vars["rangeindex"]; ok && ri.K == KBV {
		st.assume(and(app("bvsle", bvLit(^uint64(0), ri.W), ri.T), app("bvslt", ri.T, bvLit(maxLen, ri.W))))
	}
	for i, inv := range spec.Invariants {
		err := st.assumeClause(env, inv.Expr)
		if err == nil {
		} else {
			x.genFail(x.oname(fr, fmt.Sprintf("loop%d.inv%d.entry", ld.ordinal, i+1)), "invariant", inv.Tags, x.posOf(ld.pos), err.Error())
		}
	}
	for _, g := range spec.GhostDefs {
		t, err := env.evalBool(g.Expr)
		if err != nil {
			x.genFail(x.oname(fr, fmt.Sprintf("loop%d.ghostdef", ld.ordinal)), "assume", x.safetyTags(fr), x.posOf(ld.pos), err.Error())
			continue
		}
		st.assume(t)
	}
	for _, a := range spec.Assumes {
		t, err := env.evalBool(a.Expr)
		if err != nil {
			x.genFail(x.oname(fr, fmt.Sprintf("loop%d.assume", ld.ordinal)), "assume", x.safetyTags(fr), x.posOf(ld.pos), err.Error())
			continue
		}
		st.assume(t)
		x.noteAssumption(fmt.Sprintf("%s loop %d: assumed %s", fnKey(fr.fn), ld.ordinal, a.Text))
	}
	lr := &loopRec{modified: rec.mods, headSeq: headSeq}
	if spec.Decreases != nil {
		m, err := env.evalAny(spec.Decreases.Expr)
		if err == nil {
			m = coerce(m, 64, true)
			lr.measure = st.define("measure", sortBV(m.W), m.T)
			lr.hasMeasure = true
		} else {
			x.genFail(x.oname(fr, fmt.Sprintf("loop%d.decreases", ld.ordinal)), "decreases", x.safetyTags(fr), x.posOf(ld.pos), err.Error())
		}
	}
	fr.loopRec[ld.head] = lr
}

func (x *Exec) runInstrsDry(st *State, b *ssa.BasicBlock, idx int) {
	defer func() {
		if r := recover(); r != nil {
			if _, ok := r.(unsupported); ok {
				// the real pass will report it
				return
			}
			panic(r)
		}
	}()
	x.runInstrs(st, b, idx)
}

func (x *Exec) havocLoop(st *State, fr *Frame, ld *loopDesc, phis []*ssa.Phi, mods map[string]bool) {
	for _, phi := range phis {
		old := st.env[phi]
		if phi.Comment != "" {
			if fr.entryVals == nil {
				fr.entryVals = map[string]V{}
			}
			fr.entryVals["entry_"+phi.Comment] = old
		}
		nv := st.symbolic(phi.Type(), "loop_"+phi.Comment, nil, false)
		copyProv(&nv, old)
		if phi.Comment != "" {
			fr.entryVals["head_"+phi.Comment] = nv // the variable's value at the head of the current iteration
		}
		{
			var nl, ol []V
			leaves(nv, &nl)
			leaves(old, &ol)
			for i := range nl {
				if i < len(ol) && nl[i].K != KFunc && ol[i].K == nl[i].K {
					st.loopInits = append(st.loopInits, [2]string{nl[i].T, ol[i].T})
				}
			}
		}
		st.env[phi] = nv
	}
	all := mods["*"]
	for space := range st.mem {
		switch {
		case space == "H":
			if all || mods["H"] {
				keep := x.heapKeep(st)
				if mods["H:store"] || all {
					keep = func(a string) string { return app("ismeta", a) }
				}
				st.havoc("H", keep)
			} else if mods["H:store"] {
				brk0 := st.brk["H"]
				keep := func(a string) string { return app("ismeta", a) }
				if rs := st.loopStores; rs != nil {
					// the body stores only to byte ranges fixed before the loop: everything else is kept
					keep = func(a string) string {
						cs := []string{}
						for _, r := range rs {
							cs = append(cs, not(app("bvult", st.x.addrDiff(a, r.at), bvLit(r.n, 64))))
						}
						if mods["H+"] {
							// objects allocated by earlier iterations live above the break
							cs = append(cs, app("bvult", a, brk0))
						}
						if st.loopFresh {
							// the body also stores into objects allocated by this function: all of them lie
							// at or above the allocator's base, below which everything is kept
							cs = append(cs, app("bvult", a, bvLit(maxAddr, 64)))
						}
						return or(app("ismeta", a), and(cs...))
					}
				}
				st.havoc("H", keep)
			} else if mods["H+"] {
				brk := st.brk["H"]
				st.havoc("H", func(a string) string { return app("bvult", a, brk) })
			}
		case space == "B":
			if all || mods["B"] {
				st.havoc("B", nil)
			} else if mods["B+"] {
				brk := st.brk["B"]
				st.havoc("B", func(a string) string { return app("bvult", a, brk) })
			}
		case space == "G":
			if all || mods["G"] {
				st.havoc("G", nil)
			}
		default:
			if all || mods[space] {
				st.havoc(space, nil)
			}
		}
	}
	for _, sp := range []string{"B", "H"} {
		if all || mods[sp+"+"] {
			old := st.brk[sp]
			nb := st.freshConst("brk"+sp, sortBV(64))
			st.assume(and(app("bvuge", nb, old), app("bvult", nb, bvLit(brkLimit, 64))))
			st.brk[sp] = nb
		}
	}
	// the memory at the head of the current iteration (athead(...) in atcall clauses)
	fr.headMem = map[string]*MemVer{}
	for sp, m := range st.mem {
		fr.headMem[sp] = m
	}
}

// copyProv gives the fresh loop value the provenance of the value it replaces.
func copyProv(dst *V, src V) {
	if dst.K == KPtr && src.K == KPtr {
		dst.Prov = src.Prov
	}
	if dst.K == KTuple && src.K == KTuple && len(dst.Fs) == len(src.Fs) {
		for i := range dst.Fs {
			copyProv(&dst.Fs[i], src.Fs[i])
		}
	}
}

func (x *Exec) oname(fr *Frame, suffix string) string {
	if fr.depth == 0 {
		return x.key + "#" + suffix
	}
	return x.key + "#" + "in:" + fnKey(fr.fn) + "." + suffix
}

func (x *Exec) safetyTags(fr *Frame) []string {
	if x.con != nil {
		return x.con.Safety
	}
	return nil
}

func (x *Exec) tagsOr(tags []string, fr *Frame) []string {
	if len(tags) > 0 {
		return tags
	}
	return x.safetyTags(fr)
}

func (x *Exec) instrName(fr *Frame, in ssa.Instruction, kind string) string {
	// ordinal of this instruction among instructions of the same kind in its function
	n, ok := x.ordinal[in]
	if !ok {
		counts := map[string]int{}
		for _, b := range fr.fn.Blocks {
			for _, i2 := range b.Instrs {
				k := obligationKind(i2)
				if k == "" {
					continue
				}
				counts[k]++
				x.ordinal[i2] = counts[k]
			}
		}
		n = x.ordinal[in]
	}
	return x.oname(fr, fmt.Sprintf("%s%d", kind, n))
}

func obligationKind(in ssa.Instruction) string {
	switch i := in.(type) {
	case *ssa.IndexAddr, *ssa.Index:
		return "index"
	case *ssa.Lookup:
		return "index"
	case *ssa.Slice:
		return "slice"
	case *ssa.BinOp:
		if i.Op == token.QUO || i.Op == token.REM {
			return "div"
		}
	case *ssa.MakeSlice:
		return "alloc"
	case *ssa.Panic:
		return "panic"
	case *ssa.TypeAssert:
		return "typeassert"
	case *ssa.Call:
		return "call"
	case *ssa.Defer:
		return "call"
	case *ssa.MapUpdate:
		return "mapupdate"
	case *ssa.Store:
		return "store"
	}
	return ""
}

func (x *Exec) runInstrs(st *State, b *ssa.BasicBlock, idx int) []Outcome {
	fr := st.top()
	for i := idx; i < len(b.Instrs); i++ {
		in := b.Instrs[i]
		switch ins := in.(type) {
		case *ssa.Phi:
			continue
		case *ssa.DebugRef:
			if os.Getenv("PLENCVC_DEBUG") == "names" {
				fmt.Fprintf(os.Stderr, "debugref %v obj=%v isaddr=%v x=%s inenv=%v\n", ins.Expr, ins.Object(), ins.IsAddr, ins.X.Name(), st.env[ins.X].K)
			}
			if id, ok := ins.Expr.(interface{ Pos() token.Pos }); ok && id != nil {
				if obj := ins.Object(); obj != nil && !ins.IsAddr {
					if v, ok := st.env[ins.X]; ok {
						fr.names[obj] = v
					} else if c, isC := ins.X.(*ssa.Const); isC {
						fr.names[obj] = st.constant(c)
					}
				} else if obj != nil && ins.IsAddr {
					// an address-taken local: the name denotes the variable's address (use name.field / load*(name))
					if v, ok := st.env[ins.X]; ok && v.K == KPtr {
						v.Typ = ins.X.Type()
						fr.names[obj] = v
					}
				}
			}
			continue
		case *ssa.If:
			c := st.operand(ins.Cond)
			var outs []Outcome
			if c.T != "false" {
				s1 := st
				if c.T != "true" {
					s1 = st.fork()
				}
				s1.assume(c.T)
				x.noteLoopDone(s1, b, b.Succs[0])
				outs = append(outs, x.runBlock(s1, b.Succs[0], b)...)
			}
			if c.T != "true" {
				st.assume(not(c.T))
				x.noteLoopDone(st, b, b.Succs[1])
				outs = append(outs, x.runBlock(st, b.Succs[1], b)...)
			}
			return outs
		case *ssa.Jump:
			return x.runBlock(st, b.Succs[0], b)
		case *ssa.Return:
			var rs []V
			for _, r := range ins.Results {
				rs = append(rs, st.operand(r))
			}
			x.pathID++
			if fr.depth == 0 {
				// the named locals of the function under analysis stay available to its post-conditions
				st.exitNames = map[string]V{}
				seen := map[string]int{}
				for obj := range fr.names {
					seen[obj.Name()]++
				}
				for obj, v := range fr.names {
					if seen[obj.Name()] == 1 { // several variables of one name: ambiguous, not offered
						st.exitNames[obj.Name()] = v
					}
				}
				// the memory as it was when each loop was left is kept in st.exitMem (atexit(k, ...))
			}
			return []Outcome{{st: st, results: rs}}
		case *ssa.Panic:
			x.oblige(st, x.instrName(fr, in, "panic"), "panic", x.safetyTags(fr), "false", x.posOf(ins.Pos()), "explicit panic is unreachable")
			return nil
		case *ssa.Call:
			outs := x.doCall(st, ins.Common(), ins, ins)
			if len(outs) == 1 {
				st = outs[0].st
				if len(outs[0].results) == 1 {
					st.env[ins] = outs[0].results[0]
				} else {
					st.env[ins] = vTuple(outs[0].results...)
				}
				continue
			}
			var all []Outcome
			for _, o := range outs {
				if len(o.results) == 1 {
					o.st.env[ins] = o.results[0]
				} else {
					o.st.env[ins] = vTuple(o.results...)
				}
				all = append(all, x.runInstrs(o.st, b, i+1)...)
			}
			return all
		case *ssa.Defer:
			d := deferred{call: ins.Common(), site: ins}
			for _, a := range ins.Call.Args {
				d.args = append(d.args, st.operand(a))
			}
			d.fnv = st.operand(ins.Call.Value)
			fr.defers = append(fr.defers, d)
			continue
		case *ssa.RunDefers:
			states := []*State{st}
			for len(fr.defers) > 0 {
				d := fr.defers[len(fr.defers)-1]
				var next []*State
				for _, s := range states {
					f := s.top()
					f.defers = f.defers[:len(f.defers)-1]
					outs := x.doCallVals(s, d.call, d.fnv, d.args, d.site)
					for _, o := range outs {
						next = append(next, o.st)
					}
				}
				states = next
				if len(states) == 0 {
					return nil
				}
				fr = states[0].top()
			}
			if len(states) == 1 {
				st = states[0]
				fr = st.top()
				continue
			}
			var all []Outcome
			for _, s := range states {
				all = append(all, x.runInstrs(s, b, i+1)...)
			}
			return all
		default:
			x.step(st, fr, in)
		}
	}
	return nil
}

// ---------------------------------------------------------------------------
// single instructions without control flow

func (x *Exec) step(st *State, fr *Frame, in ssa.Instruction) {
	switch ins := in.(type) {
	case *ssa.Alloc:
		et := ins.Type().Underlying().(*types.Pointer).Elem()
		st.env[ins] = st.allocLocal(et)
	case *ssa.Store:
		addr := st.operand(ins.Addr)
		val := st.operand(ins.Val)
		et := ins.Addr.Type().Underlying().(*types.Pointer).Elem()
		x.checkStore(st, fr, ins, addr, val, et)
		st.storeTyped(addr, val, et)
	case *ssa.UnOp:
		st.env[ins] = x.unop(st, fr, ins)
	case *ssa.BinOp:
		st.env[ins] = x.binop(st, fr, ins)
	case *ssa.Convert:
		st.env[ins] = x.convert(st, ins)
	case *ssa.ChangeType:
		v := st.operand(ins.X)
		v.Typ = ins.Type()
		st.env[ins] = v
	case *ssa.ChangeInterface:
		v := st.operand(ins.X)
		v.Typ = ins.Type()
		st.env[ins] = v
	case *ssa.MakeInterface:
		xv := st.operand(ins.X)
		tid := vPtr(x.typeID(ins.X.Type()), nil)
		var data V
		if pointerShaped(ins.X.Type()) {
			data = xv
			if data.K == KTuple {
				data = data.Fs[0]
			}
		} else {
			data = st.allocLocal(ins.X.Type())
			st.storeTyped(data, xv, ins.X.Type())
			boxed := xv
			data.Box = &boxed
		}
		st.env[ins] = V{K: KTuple, Fs: []V{tid, data}, Typ: ins.Type()}
	case *ssa.TypeAssert:
		st.env[ins] = x.typeAssert(st, fr, ins)
	case *ssa.Extract:
		t := st.operand(ins.Tuple)
		st.env[ins] = t.Fs[ins.Index]
	case *ssa.FieldAddr:
		base := st.operand(ins.X)
		stt := ins.X.Type().Underlying().(*types.Pointer).Elem().Underlying().(*types.Struct)
		off := fieldOffset(stt, ins.Field)
		st.env[ins] = vPtr(bvadd(base.T, bvLit(uint64(off), 64)), base.Prov)
	case *ssa.Field:
		base := st.operand(ins.X)
		st.env[ins] = base.Fs[ins.Field]
	case *ssa.IndexAddr:
		st.env[ins] = x.indexAddr(st, fr, ins)
	case *ssa.Index:
		arr := st.operand(ins.X)
		idx := st.operand(ins.Index)
		if isString(ins.X.Type()) {
			st.env[ins] = x.stringIndex(st, fr, ins, arr, idx, ins.Index.Type())
			break
		}
		if v, _, ok := litVal(idx.T); ok && int(v) < len(arr.Fs) {
			st.env[ins] = arr.Fs[v]
		} else {
			unsup("symbolic index into array value: %s (X %s of type %s)", ins, ins.X, ins.X.Type())
		}
	case *ssa.Lookup:
		st.env[ins] = x.lookup(st, fr, ins)
	case *ssa.Slice:
		st.env[ins] = x.slice(st, fr, ins)
	case *ssa.MakeSlice:
		st.env[ins] = x.makeSlice(st, fr, ins)
	case *ssa.MakeClosure:
		var bs []V
		for _, b := range ins.Bindings {
			bs = append(bs, st.operand(b))
		}
		st.env[ins] = V{K: KFunc, Fn: &Closure{fn: ins.Fn.(*ssa.Function), bindings: bs}}
	case *ssa.MakeMap:
		st.env[ins] = x.makeMap(st, fr, ins)
	case *ssa.MapUpdate:
		x.mapUpdate(st, fr, ins)
	case *ssa.Range:
		st.env[ins] = x.rangeInit(st, fr, ins)
	case *ssa.Next:
		st.env[ins] = x.rangeNext(st, fr, ins)
	case *ssa.SliceToArrayPointer:
		v := st.operand(ins.X)
		st.env[ins] = v.Fs[0]
	default:
		unsup("instruction %T (%s) in %s", in, in, fnKey(fr.fn))
	}
}

func fieldOffset(st *types.Struct, i int) int64 {
	n := st.NumFields()
	fields := make([]*types.Var, n)
	for k := 0; k < n; k++ {
		fields[k] = st.Field(k)
	}
	return sizes.Offsetsof(fields)[i]
}

func (x *Exec) checkStore(st *State, fr *Frame, ins *ssa.Store, addr, val V, t types.Type) {
	if fr.depth != 0 && false {
		return
	}
	// aliasing obligations (C11): nothing may be written into caller-owned input bytes
	if addr.Prov != nil && strings.HasPrefix(addr.Prov.Space, "B") && strings.HasPrefix(addr.Prov.Region, "in:") {
		x.storeIntoInput(st, fr, ins, addr)
	}
	// decoded values must not point into the input buffer
	if addr.Prov != nil && addr.Prov.Space == "H" {
		var vs []V
		leaves(val, &vs)
		for _, l := range vs {
			if l.K == KPtr && l.Prov != nil && strings.HasPrefix(l.Prov.Space, "B") && strings.HasPrefix(l.Prov.Region, "in:") {
				x.oblige(st, x.instrName(fr, ins, "store")+".noalias", "alias", x.aliasTags(fr), "false", x.posOf(ins.Pos()),
					"a pointer into input bytes ("+l.Prov.Region+") is stored into the heap")
			} else if l.K == KPtr && l.Prov != nil && strings.HasPrefix(l.Prov.Space, "B") {
				x.oblige(st, x.instrName(fr, ins, "store")+".noalias", "alias", x.aliasTags(fr), "true", x.posOf(ins.Pos()),
					"stored byte pointer has region "+l.Prov.Region)
			}
		}
	}
}

func (x *Exec) aliasTags(fr *Frame) []string {
	if x.con != nil {
		return x.con.Safety
	}
	return nil
}

func (x *Exec) storeIntoInput(st *State, fr *Frame, ins *ssa.Store, addr V) {
	// allowed only at or beyond len(param) for the buffer being appended to
	name := strings.TrimPrefix(addr.Prov.Region, "in:")
	top := st.frames[0]
	for i, p := range top.fn.Params {
		if p.Name() == name {
			pv := top.args[i]
			if pv.K == KTuple && len(pv.Fs) == 3 {
				goal := app("bvuge", addr.T, bvadd(pv.Fs[0].T, pv.Fs[1].T))
				x.oblige(st, x.instrName(fr, ins, "store")+".appendonly", "alias", x.aliasTags(fr), goal, x.posOf(ins.Pos()),
					"store into "+name+" is at or beyond len(old("+name+"))")
				return
			}
		}
	}
	x.oblige(st, x.instrName(fr, ins, "store")+".appendonly", "alias", x.aliasTags(fr), "false", x.posOf(ins.Pos()), "store into input bytes "+name)
}

func (x *Exec) unop(st *State, fr *Frame, ins *ssa.UnOp) V {
	xv := st.operand(ins.X)
	switch ins.Op {
	case token.MUL:
		et := ins.X.Type().Underlying().(*types.Pointer).Elem()
		return st.loadTyped(xv, et)
	case token.NOT:
		return vBool(not(xv.T))
	case token.SUB:
		if isFloat(ins.Type()) {
			return vBV(app("bvxor", xv.T, bvLit(uint64(1)<<uint(xv.W-1), xv.W)), xv.W, false)
		}
		return vBV(st.define("neg", sortBV(xv.W), app("bvneg", xv.T)), xv.W, xv.Signed)
	case token.XOR:
		return vBV(st.define("not", sortBV(xv.W), app("bvnot", xv.T)), xv.W, xv.Signed)
	}
	unsup("unary operator %s", ins.Op)
	return V{}
}

func isFloat(t types.Type) bool {
	b, ok := t.Underlying().(*types.Basic)
	return ok && b.Info()&types.IsFloat != 0
}

func isString(t types.Type) bool {
	b, ok := t.Underlying().(*types.Basic)
	return ok && b.Info()&types.IsString != 0
}

func signedType(t types.Type) bool {
	b, ok := t.Underlying().(*types.Basic)
	if !ok {
		return false
	}
	_, s, _ := basicInfo(b)
	return s
}

func (x *Exec) binop(st *State, fr *Frame, ins *ssa.BinOp) V {
	l := st.operand(ins.X)
	r := st.operand(ins.Y)
	op := ins.Op
	lt := ins.X.Type()
	// comparisons
	switch op {
	case token.EQL, token.NEQ:
		t := x.valuesEqual(st, l, r, lt, ins.Y.Type())
		if op == token.NEQ {
			t = not(t)
		}
		return vBool(st.define("cmp", "Bool", t))
	case token.LAND, token.LOR:
		unsup("logical operator in SSA")
	}
	if isFloat(lt) {
		toFP := func(v V) string {
			if v.W == 32 {
				return "((_ to_fp 8 24) " + v.T + ")"
			}
			return "((_ to_fp 11 53) " + v.T + ")"
		}
		switch op {
		case token.LSS:
			return vBool(st.define("cmp", "Bool", app("fp.lt", toFP(l), toFP(r))))
		case token.LEQ:
			return vBool(st.define("cmp", "Bool", app("fp.leq", toFP(l), toFP(r))))
		case token.GTR:
			return vBool(st.define("cmp", "Bool", app("fp.gt", toFP(l), toFP(r))))
		case token.GEQ:
			return vBool(st.define("cmp", "Bool", app("fp.geq", toFP(l), toFP(r))))
		case token.ADD, token.SUB, token.MUL, token.QUO:
			// arithmetic is a function of the operands, otherwise uninterpreted
			name := fmt.Sprintf("f%s_%d", map[token.Token]string{token.ADD: "add", token.SUB: "sub", token.MUL: "mul", token.QUO: "div"}[op], l.W)
			st.x.declareUF(name, []string{sortBV(l.W), sortBV(l.W)}, sortBV(l.W))
			return vBV(st.define("fl", sortBV(l.W), app(name, l.T, r.T)), l.W, false)
		}
		unsup("floating point operator %s", op)
	}
	if isString(lt) {
		if op == token.ADD {
			return x.concatStrings(st, l, r)
		}
		unsup("string operator %s", op)
	}
	signed := signedType(lt)
	if l.K == KPtr {
		signed = false
	}
	lw := l.W
	switch op {
	case token.LSS, token.LEQ, token.GTR, token.GEQ:
		m := map[token.Token][2]string{token.LSS: {"bvslt", "bvult"}, token.LEQ: {"bvsle", "bvule"}, token.GTR: {"bvsgt", "bvugt"}, token.GEQ: {"bvsge", "bvuge"}}
		o := m[op][1]
		if signed {
			o = m[op][0]
		}
		return vBool(st.define("cmp", "Bool", app(o, l.T, r.T)))
	case token.SHL, token.SHR:
		cnt := r.T
		if r.W != lw {
			if r.W > lw {
				cnt = ite(app("bvuge", r.T, bvLit(uint64(lw), r.W)), bvLit(uint64(lw), lw), extract(r.T, lw-1, 0))
			} else {
				cnt = zext(r.T, r.W, lw)
			}
		}
		var t string
		switch {
		case op == token.SHL:
			t = app("bvshl", l.T, cnt)
		case signed:
			t = app("bvashr", l.T, cnt)
		default:
			t = app("bvlshr", l.T, cnt)
		}
		return vBV(st.define("sh", sortBV(lw), t), lw, signed)
	}
	var t string
	switch op {
	case token.ADD:
		t = bvadd(l.T, r.T)
	case token.SUB:
		t = bvsubw(l.T, r.T, lw)
	case token.MUL:
		t = app("bvmul", l.T, r.T)
	case token.QUO, token.REM:
		x.oblige(st, x.instrName(fr, ins, "div"), "div", x.safetyTags(fr), not(eq(r.T, bvLit(0, lw))), x.posOf(ins.Pos()), "divisor is not zero")
		st.assume(not(eq(r.T, bvLit(0, lw))))
		switch {
		case op == token.QUO && signed:
			t = app("bvsdiv", l.T, r.T)
		case op == token.QUO:
			t = app("bvudiv", l.T, r.T)
		case signed:
			t = app("bvsrem", l.T, r.T)
		default:
			t = app("bvurem", l.T, r.T)
		}
	case token.AND:
		t = app("bvand", l.T, r.T)
	case token.OR:
		t = app("bvor", l.T, r.T)
	case token.XOR:
		t = app("bvxor", l.T, r.T)
	case token.AND_NOT:
		t = app("bvand", l.T, app("bvnot", r.T))
	default:
		unsup("binary operator %s", op)
	}
	res := vBV(st.define("b", sortBV(lw), t), lw, signed)
	if l.K == KPtr || r.K == KPtr {
		res.K = KPtr
		res.Prov = l.Prov
		if res.Prov == nil {
			res.Prov = r.Prov
		}
	}
	return res
}

func (x *Exec) valuesEqual(st *State, l, r V, lt, rt types.Type) string {
	if isFloat(lt) {
		// only comparisons with zero are modelled: IEEE +0 == -0
		if lv, _, ok := litVal(l.T); ok && lv == 0 {
			return eq(app("bvshl", r.T, bvLit(1, r.W)), bvLit(0, r.W))
		}
		if rv, _, ok := litVal(r.T); ok && rv == 0 {
			return eq(app("bvshl", l.T, bvLit(1, l.W)), bvLit(0, l.W))
		}
		// IEEE equality (NaN != NaN, +0 == -0)
		if l.W == 32 {
			return app("fp.eq", "((_ to_fp 8 24) "+l.T+")", "((_ to_fp 8 24) "+r.T+")")
		}
		return app("fp.eq", "((_ to_fp 11 53) "+l.T+")", "((_ to_fp 11 53) "+r.T+")")
	}
	if isString(lt) {
		return x.stringsEqual(st, l, r)
	}
	if l.K == KTuple && r.K == KTuple {
		if _, isIface := lt.Underlying().(*types.Interface); isIface {
			// an interface value is nil exactly when its type word is nil
			isZero := func(v V) bool {
				a, _, ok1 := litVal(v.Fs[0].T)
				b, _, ok2 := litVal(v.Fs[1].T)
				return ok1 && ok2 && a == 0 && b == 0
			}
			if isZero(r) {
				return eq(l.Fs[0].T, bvLit(0, 64))
			}
			if isZero(l) {
				return eq(r.Fs[0].T, bvLit(0, 64))
			}
			return and(eq(l.Fs[0].T, r.Fs[0].T), eq(l.Fs[1].T, r.Fs[1].T))
		}
		if _, isSlice := lt.Underlying().(*types.Slice); isSlice {
			// comparison with nil only
			if v, _, ok := litVal(r.Fs[0].T); ok && v == 0 {
				return eq(l.Fs[0].T, bvLit(0, 64))
			}
			if v, _, ok := litVal(l.Fs[0].T); ok && v == 0 {
				return eq(r.Fs[0].T, bvLit(0, 64))
			}
		}
		if len(l.Fs) == len(r.Fs) {
			var cs []string
			for i := range l.Fs {
				cs = append(cs, x.valuesEqual(st, l.Fs[i], r.Fs[i], typeOfV(l.Fs[i]), typeOfV(r.Fs[i])))
			}
			return and(cs...)
		}
		unsup("comparison of composite values")
	}
	if l.K == KTuple || r.K == KTuple {
		// interface compared with nil constant etc.
		if l.K == KTuple {
			return eq(l.Fs[0].T, bvLit(0, 64))
		}
		return eq(r.Fs[0].T, bvLit(0, 64))
	}
	return eq(l.T, r.T)
}

func typeOfV(v V) types.Type {
	if v.Typ != nil {
		return v.Typ
	}
	return types.Typ[types.Int]
}

func (x *Exec) stringsEqual(st *State, l, r V) string {
	// expand when one side is a short constant
	tryConst := func(c, o V) (string, bool) {
		n, _, ok := litVal(c.Fs[1].T)
		if !ok || n > 32 || c.Fs[0].Prov == nil || c.Fs[0].Prov.Region != "const" {
			return "", false
		}
		cs := []string{eq(o.Fs[1].T, c.Fs[1].T)}
		for i := uint64(0); i < n; i++ {
			cs = append(cs, eq(st.load8(spaceOf(o.Fs[0], "B"), bvadd(o.Fs[0].T, bvLit(i, 64))), st.load8(spaceOf(c.Fs[0], "B"), bvadd(c.Fs[0].T, bvLit(i, 64)))))
		}
		return and(cs...), true
	}
	if t, ok := tryConst(r, l); ok {
		return t
	}
	if t, ok := tryConst(l, r); ok {
		return t
	}
	// uninterpreted otherwise: equal pointers and lengths imply equality
	st.x.declareUF("streq", []string{sortBV(64), sortBV(64), sortMem, sortBV(64), sortBV(64), sortMem}, "Bool")
	lm, rm := st.mem[spaceOf(l.Fs[0], "B")].term, st.mem[spaceOf(r.Fs[0], "B")].term
	t := app("streq", l.Fs[0].T, l.Fs[1].T, lm, r.Fs[0].T, r.Fs[1].T, rm)
	st.assume(implies(and(eq(l.Fs[0].T, r.Fs[0].T), eq(l.Fs[1].T, r.Fs[1].T), eq(lm, rm)), t))
	st.assume(implies(t, eq(l.Fs[1].T, r.Fs[1].T)))
	return t
}

func (x *Exec) declareUF(name string, args []string, ret string) {
	if x.ufDecl == nil {
		x.ufDecl = map[string]string{}
	}
	if _, ok := x.ufDecl[name]; ok {
		return
	}
	x.ufDecl[name] = fmt.Sprintf("(declare-fun %s (%s) %s)", name, strings.Join(args, " "), ret)
}

func (x *Exec) concatStrings(st *State, l, r V) V {
	total := st.define("slen", sortBV(64), bvadd(l.Fs[1].T, r.Fs[1].T))
	ll := l.Fs[1].T
	lp, rp := l.Fs[0], r.Fs[0]
	lsnap, rsnap := st.mem[spaceOf(lp, "B")], st.mem[spaceOf(rp, "B")]
	p := st.newByteRegion(total, func(s *State, k string) string {
		la, ra := bvadd(lp.T, k), bvadd(rp.T, bvsubw(k, ll, 64))
		lsnap.facts(s, la)
		rsnap.facts(s, ra)
		return ite(app("bvult", k, ll), app("select", lsnap.term, la), app("select", rsnap.term, ra))
	})
	return vTuple(p, vBV(total, 64, true))
}

func (x *Exec) convert(st *State, ins *ssa.Convert) V {
	v := st.operand(ins.X)
	from, to := ins.X.Type().Underlying(), ins.Type().Underlying()
	fb, fok := from.(*types.Basic)
	tb, tok := to.(*types.Basic)
	switch {
	case fok && tok && fb.Info()&types.IsInteger != 0 && tb.Info()&types.IsInteger != 0:
		fw, fs, _ := basicInfo(fb)
		tw, ts, _ := basicInfo(tb)
		if fb.Kind() == types.Uintptr {
			fw, fs = 64, false
		}
		if tb.Kind() == types.Uintptr {
			tw, ts = 64, false
		}
		r := vBV(st.define("cv", sortBV(tw), resize(v.T, fw, tw, fs)), tw, ts)
		if tb.Kind() == types.Uintptr || (v.K == KPtr && tw == 64) {
			r.K = KPtr
			r.Prov = v.Prov
		}
		r.Typ = ins.Type()
		return r
	case fok && tok && (fb.Kind() == types.UnsafePointer || tb.Kind() == types.UnsafePointer):
		r := vPtr(v.T, v.Prov)
		r.Typ = ins.Type()
		return r
	case fok && fb.Kind() == types.UnsafePointer, tok && tb.Kind() == types.UnsafePointer:
		r := v
		if r.K != KPtr {
			r = vPtr(v.T, v.Prov)
		}
		r.Typ = ins.Type()
		return r
	case tok && tb.Info()&types.IsString != 0:
		if sl, ok := from.(*types.Slice); ok && isByte(sl.Elem()) {
			return x.copyBytes(st, v, false)
		}
	case fok && fb.Info()&types.IsString != 0:
		if sl, ok := to.(*types.Slice); ok && isByte(sl.Elem()) {
			return x.copyBytes(st, v, true)
		}
	case fok && tok && fb.Info()&types.IsFloat != 0 && tb.Info()&types.IsFloat != 0:
		fw, _, _ := basicInfo(fb)
		tw, _, _ := basicInfo(tb)
		if fw == tw {
			return v
		}
		name := fmt.Sprintf("fconv_%d_%d", fw, tw)
		st.x.declareUF(name, []string{sortBV(fw)}, sortBV(tw))
		return vBV(app(name, v.T), tw, false)
	case fok && tok && (fb.Info()&types.IsFloat != 0 || tb.Info()&types.IsFloat != 0):
		fw, _, _ := basicInfo(fb)
		tw, ts, _ := basicInfo(tb)
		name := fmt.Sprintf("numconv_%s_%s", fb.Name(), tb.Name())
		st.x.declareUF(name, []string{sortBV(fw)}, sortBV(tw))
		return vBV(app(name, v.T), tw, ts)
	}
	if _, ok := from.(*types.Pointer); ok {
		r := v
		r.Typ = ins.Type()
		return r
	}
	unsup("conversion %s -> %s", ins.X.Type(), ins.Type())
	return V{}
}

// copyBytes models string(b) / []byte(s): a fresh region holding a copy.
func (x *Exec) copyBytes(st *State, v V, toSlice bool) V {
	ln := v.Fs[1].T
	src := v.Fs[0]
	sp := spaceOf(src, "B")
	snapshot := st.mem[sp]
	p := st.newByteRegion(ln, func(s *State, k string) string {
		snapshot.facts(s, bvadd(src.T, k))
		return app("select", snapshot.term, bvadd(src.T, k))
	})
	// Go: a zero-length conversion may yield a nil/empty value; the pointer is then irrelevant
	if toSlice {
		return vTuple(p, vBV(ln, 64, true), vBV(ln, 64, true))
	}
	return vTuple(p, vBV(ln, 64, true))
}

func (x *Exec) typeAssert(st *State, fr *Frame, ins *ssa.TypeAssert) V {
	xv := st.operand(ins.X)
	var ok string
	var val V
	if _, isIface := ins.AssertedType.Underlying().(*types.Interface); isIface {
		name := "implements_" + sanitize(typeKey(ins.AssertedType))
		st.x.declareUF(name, []string{sortBV(64)}, "Bool")
		ok = and(not(eq(xv.Fs[0].T, bvLit(0, 64))), app(name, xv.Fs[0].T))
		val = V{K: KTuple, Fs: xv.Fs, Typ: ins.AssertedType}
	} else {
		ok = eq(xv.Fs[0].T, x.typeID(ins.AssertedType))
		if pointerShaped(ins.AssertedType) {
			val = xv.Fs[1]
			val.Typ = ins.AssertedType
		} else {
			val = st.loadTyped(xv.Fs[1], ins.AssertedType)
		}
	}
	okn := st.define("taok", "Bool", ok)
	if ins.CommaOk {
		return vTuple(val, vBool(okn))
	}
	x.oblige(st, x.instrName(fr, ins, "typeassert"), "typeassert", x.safetyTags(fr), okn, x.posOf(ins.Pos()), "type assertion to "+typeKey(ins.AssertedType)+" succeeds")
	st.assume(okn)
	return val
}

func idx64(v V, t types.Type) (string, bool) {
	signed := signedType(t)
	return resize(v.T, v.W, 64, signed), signed
}

func (x *Exec) indexAddr(st *State, fr *Frame, ins *ssa.IndexAddr) V {
	base := st.operand(ins.X)
	idx := st.operand(ins.Index)
	i64, signed := idx64(idx, ins.Index.Type())
	var ptr V
	var ln string
	var et types.Type
	switch u := ins.X.Type().Underlying().(type) {
	case *types.Slice:
		ptr, ln, et = base.Fs[0], base.Fs[1].T, u.Elem()
	case *types.Pointer:
		arr := u.Elem().Underlying().(*types.Array)
		ptr, ln, et = base, bvLit(uint64(arr.Len()), 64), arr.Elem()
	default:
		unsup("IndexAddr on %s", ins.X.Type())
	}
	var goal string
	if signed {
		goal = and(app("bvsle", bvLit(0, 64), i64), app("bvslt", i64, ln))
	} else {
		goal = app("bvult", i64, ln)
	}
	if !(goalIsConstTrue(i64, ln)) {
		x.oblige(st, x.instrName(fr, ins, "index"), "bounds", x.safetyTags(fr), goal, x.posOf(ins.Pos()), "index in range")
		st.assume(goal)
	}
	es := uint64(sizeof(et))
	off := i64
	if es != 1 {
		off = app("bvmul", i64, bvLit(es, 64))
		if v, _, ok := litVal(i64); ok {
			off = bvLit(v*es, 64)
		}
		// the bounds obligation above was assumed: 0 <= i < len < 2^40 from here on
		st.markBounded(i64)
	}
	ia := st.define("ia", sortBV(64), bvadd(ptr.T, off))
	// the address of an element that exists (the index is in range) is not nil: Go's memory safety
	st.assume(not(eq(ia, bvLit(0, 64))))
	return vPtr(ia, ptr.Prov)
}

func goalIsConstTrue(i, ln string) bool {
	iv, _, ok1 := litVal(i)
	lv, _, ok2 := litVal(ln)
	return ok1 && ok2 && iv < lv
}

func (x *Exec) lookup(st *State, fr *Frame, ins *ssa.Lookup) V {
	xv := st.operand(ins.X)
	idx := st.operand(ins.Index)
	if isString(ins.X.Type()) {
		return x.stringIndex(st, fr, ins, xv, idx, ins.Index.Type())
	}
	return x.mapLookup(st, fr, ins, xv, idx)
}

// stringIndex is s[i]: a bounds obligation and a byte load.
func (x *Exec) stringIndex(st *State, fr *Frame, ins ssa.Instruction, xv, idx V, it types.Type) V {
	{
		i64, signed := idx64(idx, it)
		var goal string
		if signed {
			goal = and(app("bvsle", bvLit(0, 64), i64), app("bvslt", i64, xv.Fs[1].T))
		} else {
			goal = app("bvult", i64, xv.Fs[1].T)
		}
		if !goalIsConstTrue(i64, xv.Fs[1].T) {
			x.oblige(st, x.instrName(fr, ins, "index"), "bounds", x.safetyTags(fr), goal, x.posOf(ins.Pos()), "string index in range")
			st.assume(goal)
		}
		return vBV(st.define("ch", sortBV(8), st.load8(spaceOf(xv.Fs[0], "B"), bvadd(xv.Fs[0].T, i64))), 8, false)
	}
}

func (x *Exec) slice(st *State, fr *Frame, ins *ssa.Slice) V {
	base := st.operand(ins.X)
	var ptr V
	var ln, cp string
	var es uint64 = 1
	isStr := false
	switch u := ins.X.Type().Underlying().(type) {
	case *types.Slice:
		ptr, ln, cp = base.Fs[0], base.Fs[1].T, base.Fs[2].T
		es = uint64(sizeof(u.Elem()))
	case *types.Basic:
		ptr, ln, cp = base.Fs[0], base.Fs[1].T, base.Fs[1].T
		isStr = true
	case *types.Pointer:
		arr := u.Elem().Underlying().(*types.Array)
		ptr = base
		ln = bvLit(uint64(arr.Len()), 64)
		cp = ln
		es = uint64(sizeof(arr.Elem()))
	default:
		unsup("slice of %s", ins.X.Type())
	}
	lo := bvLit(0, 64)
	if ins.Low != nil {
		lo, _ = idx64(st.operand(ins.Low), ins.Low.Type())
	}
	hi := ln
	if ins.High != nil {
		hi, _ = idx64(st.operand(ins.High), ins.High.Type())
	}
	limit := cp
	if isStr {
		limit = ln
	}
	mx := cp
	var conds []string
	conds = append(conds, app("bvsle", bvLit(0, 64), lo), app("bvsle", lo, hi))
	if ins.Max != nil {
		mx, _ = idx64(st.operand(ins.Max), ins.Max.Type())
		conds = append(conds, app("bvsle", hi, mx), app("bvsle", mx, cp))
	} else {
		conds = append(conds, app("bvsle", hi, limit))
	}
	if ins.Low != nil || ins.High != nil || ins.Max != nil {
		goal := and(conds...)
		if _, isPtr := ins.X.Type().Underlying().(*types.Pointer); !(isPtr && ins.Low == nil && ins.High == nil) {
			x.oblige(st, x.instrName(fr, ins, "slice"), "bounds", x.safetyTags(fr), goal, x.posOf(ins.Pos()), "slice bounds in range")
			st.assume(goal)
		}
	}
	off := lo
	if es != 1 {
		off = app("bvmul", lo, bvLit(es, 64))
		if v, _, ok := litVal(lo); ok {
			off = bvLit(v*es, 64)
		}
	}
	np := vPtr(st.define("sp", sortBV(64), bvadd(ptr.T, off)), ptr.Prov)
	if v, _, ok := litVal(off); ok && v == 0 {
		np = vPtr(ptr.T, ptr.Prov) // s[0:...]: the same address
	}
	nl := vBV(st.define("sl", sortBV(64), bvsubw(hi, lo, 64)), 64, true)
	if isStr {
		return V{K: KTuple, Fs: []V{np, nl}, Typ: ins.Type()}
	}
	nc := vBV(st.define("sc", sortBV(64), bvsubw(mx, lo, 64)), 64, true)
	return V{K: KTuple, Fs: []V{np, nl, nc}, Typ: ins.Type()}
}

func (x *Exec) makeSlice(st *State, fr *Frame, ins *ssa.MakeSlice) V {
	ln, _ := idx64(st.operand(ins.Len), ins.Len.Type())
	cp, _ := idx64(st.operand(ins.Cap), ins.Cap.Type())
	et := ins.Type().Underlying().(*types.Slice).Elem()
	es := uint64(sizeof(et))
	goal := and(app("bvsle", bvLit(0, 64), ln), app("bvsle", ln, cp), app("bvult", cp, bvLit(maxLen, 64)))
	x.oblige(st, x.instrName(fr, ins, "alloc"), "alloc", x.safetyTags(fr), goal, x.posOf(ins.Pos()), "make: 0 <= len <= cap < 2^40")
	st.assume(goal)
	x.allocBound(st, fr, ins, cp)
	space := "H"
	if isByte(et) {
		space = "B"
	}
	nbytes := cp
	if es != 1 {
		nbytes = app("bvmul", cp, bvLit(es, 64))
	}
	var p V
	if space == "B" {
		p = st.newByteRegion(st.define("nb", sortBV(64), nbytes), func(*State, string) string { return bvLit(0, 8) })
	} else {
		p = st.allocFresh(space, st.define("nb", sortBV(64), nbytes), true)
	}
	return V{K: KTuple, Fs: []V{p, vBV(ln, 64, true), vBV(cp, 64, true)}, Typ: ins.Type()}
}

// allocBound emits the C04 allocation obligation: elements <= allocbound.
func (x *Exec) allocBound(st *State, fr *Frame, site ssa.Instruction, elems string) {
	top := st.frames[0]
	if x.con == nil || x.con.AllocBound == nil {
		return
	}
	vars := map[string]V{}
	x.bindParams(vars, top.fn, top.args)
	env := &CEnv{st: st, oldMem: top.entryMem, vars: vars, tparam: x.tparam}
	b, err := env.evalAny(x.con.AllocBound.Expr)
	name := x.instrName(fr, site, "allocbound")
	if err != nil {
		x.genFail(name, "allocbound", x.con.AllocBound.Tags, x.posOf(site.Pos()), err.Error())
		return
	}
	b = coerce(b, 64, true)
	x.oblige(st, name, "allocbound", x.tagsOr(x.con.AllocBound.Tags, fr), app("bvsle", elems, b.T), x.posOf(site.Pos()), "allocated elements <= "+x.con.AllocBound.Text)
}

func float64bits(f float64) uint64 { return mathFloat64bits(f) }
func float32bits(f float32) uint32 { return mathFloat32bits(f) }

// globalAddr gives every package-level variable a fixed address in the G memory.
// The address is derived from the name so that it is the same in every run and query.
func (x *Exec) globalAddr(g *ssa.Global) V {
	id, ok := x.globals[g]
	if !ok {
		h := uint64(1469598103934665603)
		for _, c := range []byte(g.Pkg.Pkg.Path() + "." + g.Name()) {
			h = (h ^ uint64(c)) * 1099511628211
		}
		id = 0x10000000 + (h%0x7fff0)*0x1000
		x.globals[g] = id
	}
	p := vPtr(bvLit(id, 64), &Prov{Space: "G", Region: "global:" + g.Name()})
	p.Typ = g.Type()
	return p
}

// assumeGlobals assumes the declared invariants of package-level variables.
func (x *Exec) globalEnv(st *State) (*CEnv, map[string]*ssa.Global) {
	vars := map[string]V{}
	return &CEnv{st: st, vars: vars, fn: x.key}, nil
}

func (x *Exec) lookupGlobal(name string) *ssa.Global {
	i := strings.LastIndex(name, ".")
	if i < 0 || x.ld == nil {
		return nil
	}
	tp, ok := x.ld.types[name[:i]]
	if !ok {
		return nil
	}
	pkg := x.prog.Package(tp)
	if pkg == nil {
		return nil
	}
	g, _ := pkg.Members[name[i+1:]].(*ssa.Global)
	return g
}

// evalGlobalClause evaluates a `global <pkg.name> <expr over g>` clause in st.
func (x *Exec) evalGlobalClause(st *State, cl *Clause, prove bool) (string, error) {
	g := x.lookupGlobal(cl.Name)
	if g == nil {
		return "", fmt.Errorf("unknown package-level variable %s", cl.Name)
	}
	addr := x.globalAddr(g)
	et := g.Type().Underlying().(*types.Pointer).Elem()
	env := &CEnv{st: st, vars: map[string]V{}, fn: x.key, prove: prove}
	env.vars["g"] = env.loadTyped(addr, et)
	return env.evalBool(cl.Expr)
}

const brkStride = uint64(1) << 48
const brkLimit = uint64(1) << 62

// bump returns the address of a fresh allocation of n bytes in space and
// advances the break. While the break is concrete, fresh regions sit at fixed
// strides above every caller-supplied address (a model of an allocator that is
// unobservable to code that never compares or offsets pointers across
// objects); after a loop cut the break is symbolic and only ordered.
func (st *State) bump(space string, n string) string {
	brk := st.brk[space]
	if v, _, ok := litVal(brk); ok && v+brkStride < brkLimit {
		st.assume(app("bvult", n, bvLit(brkStride, 64)))
		st.brk[space] = bvLit(v+brkStride, 64)
		return brk
	}
	addr := st.define("al", sortBV(64), brk)
	nb := st.freshConst("brk"+space, sortBV(64))
	st.assume(and(app("bvuge", nb, bvadd(brk, n)), app("bvult", nb, bvLit(brkLimit, 64)), app("bvuge", bvadd(brk, n), brk)))
	st.brk[space] = nb
	return addr
}
