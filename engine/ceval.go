package main

// Contract expression evaluation: CExpr -> V (SMT terms) in an environment.

import (
	"fmt"
	"go/types"
	"math/big"
	"os"
	"sort"
	"strconv"
	"strings"
)

type CEnv struct {
	st        *State
	oldMem    map[string]*MemVer // memories of the pre-state (for old(...))
	vars      map[string]V
	prove     bool // positive-polarity foralls are Skolemised
	tparam    map[string]types.Type
	inOld     bool
	headMem   map[string]*MemVer
	cells     map[string]V // captured variables by name: the address of the variable
	pol       bool         // current polarity (true = positive)
	fn        string
	exitMem   map[int]map[string]*MemVer // post-conditions: the memories when loop k was left (atexit(k, ...))
	inGhost   bool               // evaluating the post-conditions of a ghost call to fn (a law may mention fn itself)
	skolems   map[*CExpr]V       // forall nodes Skolemised ahead of time (at function entry)
	harvest   bool               // collect instantiation terms instead of building formulas
	curMem    map[string]*MemVer // frozen "current" memories (late instantiation of an earlier assumption)
	onlyTerm  map[int]string     // late instantiation: instantiate foralls with this term only
	sawForall bool               // an assume-side forall was instantiated while evaluating
}

type cerr struct{ msg string }

func cfail(format string, a ...interface{}) { panic(cerr{fmt.Sprintf(format, a...)}) }

// evalClause translates a boolean clause; err is returned for malformed clauses.
func (env *CEnv) evalBool(e *CExpr) (t string, err error) {
	defer func() {
		if r := recover(); r != nil {
			if ce, ok := r.(cerr); ok {
				err = fmt.Errorf("%s (in %q)", ce.msg, e.String())
				return
			}
			panic(r)
		}
	}()
	env.pol = true
	v := env.eval(e)
	if v.K != KBool {
		cfail("clause is not boolean")
	}
	return v.T, nil
}

func (env *CEnv) evalAny(e *CExpr) (v V, err error) {
	defer func() {
		if r := recover(); r != nil {
			if ce, ok := r.(cerr); ok {
				err = fmt.Errorf("%s (in %q)", ce.msg, e.String())
				return
			}
			panic(r)
		}
	}()
	env.pol = true
	return env.eval(e), nil
}

// rawForall: emit a quantified assumption to the solver when no instantiation term is known.
// Off: such assumptions are only instantiated by the engine (sound: dropping an assumption).
var rawForall = os.Getenv("PLENCVC_RAW_FORALL") == "1"

func untyped(n *big.Int) V { return V{K: KBV, W: 0, T: n.String(), Signed: true} }

func (env *CEnv) mem(space string) *MemVer {
	if env.inOld && env.oldMem != nil {
		if m, ok := env.oldMem[space]; ok {
			return m
		}
	}
	if env.curMem != nil {
		if m, ok := env.curMem[space]; ok {
			return m
		}
	}
	return env.st.mem[space]
}

func (env *CEnv) load8(space, a string) string {
	m := env.mem(space)
	if m == nil {
		cfail("no memory space %s", space)
	}
	return env.st.read8(m, a)
}

func (env *CEnv) loadN(space, a string, n int) string {
	if n == 1 {
		return env.load8(space, a)
	}
	parts := make([]string, n)
	for i := 0; i < n; i++ {
		parts[n-1-i] = env.load8(space, bvadd(a, bvLit(uint64(i), 64)))
	}
	if w := env.st.x.wholeValue(parts); w != "" {
		return w
	}
	return env.st.define("cl", sortBV(8*n), "(concat "+strings.Join(parts, " ")+")")
}

func spaceOf(v V, def string) string {
	if v.Prov != nil && v.Prov.Space != "" {
		return v.Prov.Space
	}
	return def
}

// coerce an untyped constant to width w.
func coerce(v V, w int, signed bool) V {
	if v.K == KBV && v.W == 0 {
		n, _ := new(big.Int).SetString(v.T, 10)
		return vBV(bvLitBig(n, w), w, signed)
	}
	return v
}

func typeByName(name string, tparam map[string]types.Type) (w int, signed bool, ok bool) {
	if t, has := tparam[name]; has {
		if b, isb := t.Underlying().(*types.Basic); isb {
			return basicInfo(b)
		}
	}
	switch name {
	case "int", "int64":
		return 64, true, true
	case "int32":
		return 32, true, true
	case "int16":
		return 16, true, true
	case "int8":
		return 8, true, true
	case "uint", "uint64", "uintptr":
		return 64, false, true
	case "uint32":
		return 32, false, true
	case "uint16":
		return 16, false, true
	case "uint8", "byte":
		return 8, false, true
	}
	return 0, false, false
}

func (env *CEnv) eval(e *CExpr) V {
	switch e.Op {
	case "lit":
		n, ok := new(big.Int).SetString(e.Tok, 0)
		if !ok {
			cfail("bad integer literal %s", e.Tok)
		}
		return untyped(n)
	case "char":
		s, err := strconv.Unquote(e.Tok)
		if err != nil || len(s) != 1 {
			cfail("bad char literal %s", e.Tok)
		}
		return vBV(bvLit(uint64(s[0]), 8), 8, false)
	case "str":
		s, err := strconv.Unquote(e.Tok)
		if err != nil {
			cfail("bad string literal %s", e.Tok)
		}
		bs := []byte(s)
		return V{K: KSeq, Seq: &Seq{Max: len(bs), Len: bvLit(uint64(len(bs)), 64), Byte: func(i string) string {
			t := bvLit(0, 8)
			for k := len(bs) - 1; k >= 0; k-- {
				t = ite(eq(i, bvLit(uint64(k), 64)), bvLit(uint64(bs[k]), 8), t)
			}
			return t
		}}}
	case "ident":
		switch e.Tok {
		case "true", "false":
			return vBool(e.Tok)
		case "nil":
			return V{K: KPtr, T: bvLit(0, 64), W: 64, Typ: types.Typ[types.UntypedNil]}
		}
		if cell, isCell := env.cells[e.Tok]; isCell {
			// a captured variable: its value in the memory this (sub)expression is read in
			if pt, ok := cell.Typ.Underlying().(*types.Pointer); ok {
				if _, isStruct := pt.Elem().Underlying().(*types.Struct); isStruct {
					// a struct variable denotes its address: name.field reads just that field
					return cell
				}
				v := env.loadTyped(cell, pt.Elem())
				if v.Typ == nil {
					v.Typ = pt.Elem()
				}
				return v
			}
		}
		v, ok := env.vars[e.Tok]
		if !ok {
			var have []string
			for k := range env.vars {
				have = append(have, k)
			}
			sort.Strings(have)
			cfail("unknown identifier %s (known: %s)", e.Tok, strings.Join(have, " "))
		}
		return v
	case "un":
		x := env.evalPol(e.Args[0], e.Tok == "!")
		switch e.Tok {
		case "!":
			if x.K != KBool {
				cfail("! on non-bool")
			}
			return vBool(not(x.T))
		case "-":
			if x.W == 0 {
				n, _ := new(big.Int).SetString(x.T, 10)
				return untyped(n.Neg(n))
			}
			return vBV(app("bvneg", x.T), x.W, x.Signed)
		case "^":
			if x.W == 0 {
				cfail("^ on untyped constant")
			}
			return vBV(app("bvnot", x.T), x.W, x.Signed)
		}
	case "bin":
		return env.evalBin(e)
	case "forall", "exists":
		w, signed, ok := typeByName(e.VTyp, env.tparam)
		if !ok {
			cfail("unknown quantifier type %s", e.VTyp)
		}
		skolem := (e.Op == "forall") == env.pol && env.prove
		saved, had := env.vars[e.Var]
		defer func() {
			if had {
				env.vars[e.Var] = saved
			} else {
				delete(env.vars, e.Var)
			}
		}()
		if skolem {
			if pre, ok := env.skolems[e]; ok {
				env.vars[e.Var] = pre
				return env.eval(e.Args[0])
			}
			name := env.st.freshConst("sk_"+e.Var, sortBV(w))
			env.vars[e.Var] = vBV(name, w, signed)
			if env.skolems != nil && env.harvest {
				env.skolems[e] = env.vars[e.Var]
			}
			env.st.addPool(w, name) // earlier quantified assumptions are instantiated at the witness
			return env.eval(e.Args[0])
		}
		if !env.prove && e.Op == "forall" && env.pol {
			// assume side: instantiate with the harvested terms of this width
			env.sawForall = true
			if t, ok := env.onlyTerm[w]; env.onlyTerm != nil {
				if !ok || len(env.poolFor(e.Args[0], e.Var, w, []string{t})) == 0 {
					return vBool("true")
				}
				env.vars[e.Var] = vBV(t, w, signed)
				return env.eval(e.Args[0])
			}
			if pool := env.st.pool[w]; len(pool) > 0 {
				var cs []string
				for _, t := range env.poolFor(e.Args[0], e.Var, w, pool) {
					env.vars[e.Var] = vBV(t, w, signed)
					b := env.eval(e.Args[0])
					cs = append(cs, b.T)
				}
				return vBool(and(cs...))
			}
			if !rawForall {
				// no instantiation term yet: the clause is registered (sawForall) and instantiated
				// at every witness that appears later; queries stay quantifier free
				return vBool("true")
			}
		}
		env.st.x.fresh++
		bn := fmt.Sprintf("q_%s_%d", e.Var, env.st.x.fresh)
		env.vars[e.Var] = vBV(bn, w, signed)
		// facts instantiated while evaluating the body mention the bound
		// variable; capture them inside the quantifier.
		mark := len(env.st.script)
		body := env.eval(e.Args[0])
		var inner []string
		for _, c := range env.st.script[mark:] {
			if strings.HasPrefix(c, "(assert ") && strings.Contains(c, bn) {
				inner = append(inner, c[8:len(c)-1])
			} else {
				inner = append(inner, "")
			}
		}
		kept := env.st.script[:mark]
		var facts []string
		for i, c := range env.st.script[mark:] {
			if inner[i] != "" {
				facts = append(facts, inner[i])
			} else {
				kept = append(kept, c)
			}
		}
		env.st.script = kept
		env.st.x.quantified = true
		b := body.T
		if len(facts) > 0 {
			if e.Op == "forall" {
				b = implies(and(facts...), b)
			} else {
				b = and(append(facts, b)...)
			}
		}
		return vBool(fmt.Sprintf("(%s ((%s %s)) %s)", e.Op, bn, sortBV(w), b))
	case "index":
		x := env.eval(e.Args[0])
		i := coerce(env.eval(e.Args[1]), 64, true)
		if env.prove && i.K == KBV && i.W == 64 && !env.st.inLate {
			// index terms of goals are instantiation candidates for earlier quantified assumptions
			env.st.addPoolClass(64, env.st.define("idx", sortBV(64), i.T), seqClass(x))
		}
		if x.K == KSeq {
			return vBV(x.Seq.Byte(resize(i.T, i.W, 64, i.Signed)), 8, false)
		}
		if x.K == KTuple && len(x.Fs) == 3 && x.Typ != nil {
			if sl, ok := x.Typ.Underlying().(*types.Slice); ok && !isByte(sl.Elem()) {
				// element of a typed slice: a typed load at ptr + i*size
				es := uint64(sizeof(sl.Elem()))
				// the index is clamped into [0, 2^40) (an out-of-range index reads element 0: clauses guard their
				// indexes, and Go itself panics there), so element addresses never wrap and two of them
				// overlap exactly when their indexes are equal
				off := env.elemOffset(i, es)
				return env.loadTyped(vPtr(bvadd(x.Fs[0].T, off), x.Fs[0].Prov), sl.Elem())
			}
		}
		if x.K == KTuple && len(x.Fs) >= 2 && x.Fs[0].K == KPtr {
			a := bvadd(x.Fs[0].T, resize(i.T, i.W, 64, i.Signed))
			return vBV(env.load8(spaceOf(x.Fs[0], "B"), a), 8, false)
		}
		cfail("cannot index this value")
	case "slice":
		x := env.eval(e.Args[0])
		if x.K == KSeq {
			lo := bvLit(0, 64)
			hi := x.Seq.Len
			if e.Args[1] != nil {
				lo = coerce(env.eval(e.Args[1]), 64, true).T
			}
			if e.Args[2] != nil {
				hi = coerce(env.eval(e.Args[2]), 64, true).T
			}
			sq := x.Seq
			return V{K: KSeq, Seq: &Seq{Len: bvsubw(hi, lo, 64), Byte: func(i string) string { return sq.Byte(bvadd(lo, i)) }}}
		}
		if x.K != KTuple || x.Fs[0].K != KPtr {
			cfail("cannot slice this value")
		}
		p, l, c := sliceParts(x)
		lo := bvLit(0, 64)
		hi := l.T
		if e.Args[1] != nil {
			lo = coerce(env.eval(e.Args[1]), 64, true).T
		}
		if e.Args[2] != nil {
			hi = coerce(env.eval(e.Args[2]), 64, true).T
		}
		np := vPtr(bvadd(p.T, lo), p.Prov)
		return vTuple(np, vBV(bvsubw(hi, lo, 64), 64, true), vBV(bvsubw(c.T, lo, 64), 64, true))
	case "field":
		if ix := e.Args[0]; ix.Op == "index" {
			// s[i].f on a slice of structs: only field f of the element is read
			bx := env.eval(ix.Args[0])
			if bx.K == KTuple && len(bx.Fs) == 3 && bx.Typ != nil {
				if sl, ok := bx.Typ.Underlying().(*types.Slice); ok {
					if _, isStruct := sl.Elem().Underlying().(*types.Struct); isStruct {
						i := coerce(env.eval(ix.Args[1]), 64, true)
						if env.prove && i.K == KBV && i.W == 64 && !env.st.inLate {
							env.st.addPoolClass(64, env.st.define("idx", sortBV(64), i.T), seqClass(bx))
						}
						p := vPtr(bvadd(bx.Fs[0].T, env.elemOffset(i, uint64(sizeof(sl.Elem())))), bx.Fs[0].Prov)
						p.Typ = types.NewPointer(sl.Elem())
						return env.field(p, e.Tok)
					}
				}
			}
		}
		x := env.eval(e.Args[0])
		return env.field(x, e.Tok)
	case "call":
		return env.call(e)
	case "ghostcall":
		return env.ghostCall(e)
	}
	cfail("cannot evaluate %s", e.Op)
	return V{}
}

// seqClass names the kind of sequence a value is when it is indexed: "b" for bytes (byte slices,
// strings, byte sequences), "e:<type>" for slices of other element types, "" otherwise.
func seqClass(x V) string {
	if x.K == KSeq {
		return "b"
	}
	if x.K == KTuple && x.Typ != nil {
		switch u := x.Typ.Underlying().(type) {
		case *types.Slice:
			if isByte(u.Elem()) {
				return "b"
			}
			return "e:" + u.Elem().String()
		case *types.Basic:
			if u.Kind() == types.String {
				return "b"
			}
		}
	}
	if x.K == KTuple && x.Typ == nil && len(x.Fs) >= 2 && x.Fs[0].K == KPtr {
		return "b"
	}
	return ""
}

// quantClasses finds out how the bound variable v of a quantified clause is used: the classes of the
// sequences it indexes, or generic=true when it is used in any other way (arithmetic, arguments).
func (env *CEnv) quantClasses(e *CExpr, v string) (classes map[string]bool, generic bool) {
	classes = map[string]bool{}
	var mentions func(e *CExpr) bool
	mentions = func(e *CExpr) bool {
		if e == nil {
			return false
		}
		if e.Op == "ident" && e.Tok == v {
			return true
		}
		for _, a := range e.Args {
			if mentions(a) {
				return true
			}
		}
		return false
	}
	var walk func(e *CExpr)
	walk = func(e *CExpr) {
		if e == nil || generic {
			return
		}
		switch e.Op {
		case "ident":
			if e.Tok == v {
				generic = true
			}
			return
		case "index":
			if ix := e.Args[1]; ix.Op == "ident" && ix.Tok == v && !mentions(e.Args[0]) {
				func() {
					defer func() {
						if r := recover(); r != nil {
							generic = true
						}
					}()
					c := seqClass(env.eval(e.Args[0]))
					if c == "" {
						generic = true
					} else {
						classes[c] = true
					}
				}()
				return
			}
		case "bin":
			// guards such as 0 <= v && v < n do not make the variable generic
			if (e.Tok == "<" || e.Tok == "<=" || e.Tok == ">" || e.Tok == ">=") && len(e.Args) == 2 {
				l, r := e.Args[0], e.Args[1]
				if (l.Op == "ident" && l.Tok == v && !mentions(r)) || (r.Op == "ident" && r.Tok == v && !mentions(l)) {
					return
				}
			}
		}
		for _, a := range e.Args {
			walk(a)
		}
	}
	walk(e)
	if len(classes) == 0 {
		generic = true
	}
	return classes, generic
}

// poolFor filters the instantiation terms of width w for a quantified clause over variable v.
func (env *CEnv) poolFor(e *CExpr, v string, w int, pool []string) []string {
	if w != 64 || len(pool) == 0 {
		return pool
	}
	classes, generic := env.quantClasses(e, v)
	if generic {
		return pool
	}
	var out []string
	for _, t := range pool {
		c := env.st.poolClass[t]
		if c == "" || classes[c] {
			out = append(out, t)
		}
	}
	return out
}

// elemOffset is the byte offset of element i (clamped into [0, 2^40), see the index case) of a
// slice with elements of es bytes.
func (env *CEnv) elemOffset(i V, es uint64) string {
	it := resize(i.T, i.W, 64, i.Signed)
	if v, _, ok := litVal(it); ok && v < maxLen {
		env.st.markBounded(bvLit(v, 64))
		return bvLit(v*es, 64)
	}
	ci := env.st.define("ci", sortBV(64), ite(app("bvult", it, bvLit(maxLen, 64)), it, bvLit(0, 64)))
	env.st.markBounded(ci)
	return app("bvmul", ci, bvLit(es, 64))
}

func (env *CEnv) evalPol(e *CExpr, flip bool) V {
	if flip {
		env.pol = !env.pol
		defer func() { env.pol = !env.pol }()
	}
	return env.eval(e)
}

// tryField is field() that reports failure instead of aborting the clause.
func (env *CEnv) tryField(x V, name string) (v V, ok bool) {
	defer func() {
		if r := recover(); r != nil {
			if _, isC := r.(cerr); isC {
				ok = false
				return
			}
			panic(r)
		}
	}()
	return env.field(x, name), true
}

func (env *CEnv) field(x V, name string) V {
	if x.K == KPtr && x.Typ != nil {
		if pt, ok := x.Typ.Underlying().(*types.Pointer); ok {
			if st, ok := pt.Elem().Underlying().(*types.Struct); ok {
				for i := 0; i < st.NumFields(); i++ {
					if st.Field(i).Name() == name {
						addr := vPtr(bvadd(x.T, bvLit(uint64(fieldOffset(st, i)), 64)), x.Prov)
						return env.loadTyped(addr, st.Field(i).Type())
					}
				}
				// promoted fields of embedded structs
				for i := 0; i < st.NumFields(); i++ {
					if !st.Field(i).Embedded() {
						continue
					}
					if _, isStruct := st.Field(i).Type().Underlying().(*types.Struct); !isStruct {
						continue
					}
					emb := vPtr(bvadd(x.T, bvLit(uint64(fieldOffset(st, i)), 64)), x.Prov)
					emb.Typ = types.NewPointer(st.Field(i).Type())
					if v, ok := env.tryField(emb, name); ok {
						return v
					}
				}
			}
		}
	}
	if x.K == KTuple && x.Typ != nil {
		if tt, ok := x.Typ.(*types.Tuple); ok {
			for i := 0; i < tt.Len() && i < len(x.Fs); i++ {
				if tt.At(i).Name() == name || fmt.Sprintf("r%d", i) == name {
					return x.Fs[i]
				}
			}
		}
	}
	if x.K == KTuple {
		switch name {
		case "ptr", "data":
			if name == "data" && len(x.Fs) == 2 && x.Typ != nil {
				if _, ok := x.Typ.Underlying().(*types.Interface); ok {
					return x.Fs[1]
				}
			}
			if name == "ptr" {
				return x.Fs[0]
			}
		case "len":
			return x.Fs[1]
		case "cap":
			if len(x.Fs) == 3 {
				return x.Fs[2]
			}
		case "typ":
			return x.Fs[0]
		}
		if x.Typ != nil {
			if st, ok := x.Typ.Underlying().(*types.Struct); ok {
				for i := 0; i < st.NumFields(); i++ {
					if st.Field(i).Name() == name {
						f := x.Fs[i]
						if f.Typ == nil {
							f.Typ = st.Field(i).Type()
						}
						return f
					}
				}
				// promoted fields of embedded structs
				for i := 0; i < st.NumFields(); i++ {
					if !st.Field(i).Embedded() || i >= len(x.Fs) {
						continue
					}
					if _, isStruct := st.Field(i).Type().Underlying().(*types.Struct); !isStruct {
						continue
					}
					emb := x.Fs[i]
					if emb.Typ == nil {
						emb.Typ = st.Field(i).Type()
					}
					if v, ok := env.tryField(emb, name); ok {
						return v
					}
				}
			}
		}
	}
	cfail("no field %s (value kind %d, type %v, %d parts)", name, x.K, x.Typ, len(x.Fs))
	return V{}
}

func seqEq(env *CEnv, a, b *Seq) string {
	lenEq := eq(a.Len, b.Len)
	if mx := maxOf(a.Max, b.Max); mx > 0 && mx <= 24 {
		// statically bounded: one conjunct per position, no quantifier
		cs := []string{lenEq}
		for i := 0; i < mx; i++ {
			k := bvLit(uint64(i), 64)
			cs = append(cs, implies(app("bvult", k, a.Len), eq(a.Byte(k), b.Byte(k))))
		}
		return and(cs...)
	}
	if env.prove && env.pol {
		j := env.st.freshConst("sk_j", sortBV(64))
		env.st.addPool(64, j)
		return and(lenEq, implies(app("bvult", j, a.Len), eq(a.Byte(j), b.Byte(j))))
	}
	if !rawForall {
		// assume side without quantifiers: the statically bounded operands of a concatenation are
		// spelled out position by position, and the general statement is instantiated by the engine
		// at the known index terms (now and, through the enclosing clause, at every later witness)
		cs := []string{lenEq}
		anchor := func(x, y *Seq) {
			if len(x.Parts) == 0 {
				return
			}
			off := bvLit(0, 64)
			for _, p := range x.Parts {
				if p.Max > 0 && p.Max <= 24 {
					for i := 0; i < p.Max; i++ {
						k := bvLit(uint64(i), 64)
						cs = append(cs, implies(app("bvult", k, p.Len), eq(y.Byte(bvadd(off, k)), p.Byte(k))))
					}
				}
				off = bvadd(off, p.Len)
			}
		}
		anchor(a, b)
		anchor(b, a)
		env.sawForall = true
		inst := func(t string) {
			cs = append(cs, implies(app("bvult", t, a.Len), eq(a.Byte(t), b.Byte(t))))
		}
		byteIdx := func(t string) bool { c := env.st.poolClass[t]; return c == "" || c == "b" }
		if env.onlyTerm != nil {
			if t, ok := env.onlyTerm[64]; ok && byteIdx(t) {
				inst(t)
			}
		} else {
			for _, t := range env.st.pool[64] {
				if byteIdx(t) {
					inst(t)
				}
			}
		}
		return and(cs...)
	}
	env.st.x.fresh++
	bn := fmt.Sprintf("q_j_%d", env.st.x.fresh)
	mark := len(env.st.script)
	body := eq(a.Byte(bn), b.Byte(bn))
	var facts []string
	kept := env.st.script[:mark:mark]
	for _, c := range env.st.script[mark:] {
		if strings.HasPrefix(c, "(assert ") && strings.Contains(c, bn) {
			facts = append(facts, c[8:len(c)-1])
		} else {
			kept = append(kept, c)
		}
	}
	env.st.script = kept
	env.st.x.quantified = true
	return and(lenEq, fmt.Sprintf("(forall ((%s (_ BitVec 64))) %s)", bn, implies(and(append(facts, app("bvult", bn, a.Len))...), body)))
}

func (env *CEnv) evalBin(e *CExpr) V {
	op := e.Tok
	switch op {
	case "==>":
		l := env.evalPol(e.Args[0], true)
		if l.K == KBool && l.T == "false" {
			// the conclusion may name things that only exist when the premise holds (call_<name>_r<i>)
			return vBool("true")
		}
		r := env.eval(e.Args[1])
		if l.K != KBool || r.K != KBool {
			cfail("==> on non-bool")
		}
		return vBool(implies(l.T, r.T))
	case "<==>":
		// both polarities: evaluate without Skolemisation
		savedProve := env.prove
		env.prove = false
		l := env.eval(e.Args[0])
		r := env.eval(e.Args[1])
		env.prove = savedProve
		return vBool(eq(l.T, r.T))
	case "&&", "||":
		l := env.eval(e.Args[0])
		if l.K == KBool && ((op == "&&" && l.T == "false") || (op == "||" && l.T == "true")) {
			// the right operand may name things that only exist when the left one allows it (call_<name>_r<i>)
			return vBool(l.T)
		}
		r := env.eval(e.Args[1])
		if l.K != KBool || r.K != KBool {
			cfail("%s on non-bool", op)
		}
		if op == "&&" {
			return vBool(and(l.T, r.T))
		}
		return vBool(or(l.T, r.T))
	case "++":
		l := env.toSeq(env.eval(e.Args[0]))
		r := env.toSeq(env.eval(e.Args[1]))
		mx := 0
		if l.Max > 0 && r.Max > 0 {
			mx = l.Max + r.Max
		}
		var parts []*Seq
		for _, s := range []*Seq{l, r} {
			if len(s.Parts) > 0 {
				parts = append(parts, s.Parts...)
			} else {
				parts = append(parts, s)
			}
		}
		return V{K: KSeq, Seq: &Seq{Parts: parts, Max: mx, Len: bvadd(l.Len, r.Len), Byte: func(i string) string {
			return ite(app("bvult", i, l.Len), l.Byte(i), r.Byte(bvsubw(i, l.Len, 64)))
		}}}
	}
	l := env.eval(e.Args[0])
	r := env.eval(e.Args[1])
	if op == "==" || op == "!=" {
		t := env.equal(l, r)
		if op == "!=" {
			t = not(t)
		}
		return vBool(t)
	}
	if l.K == KPtr && r.K == KBV && r.W != 0 {
		l = vBV(l.T, 64, false)
	}
	if r.K == KPtr && l.K == KBV && l.W != 0 {
		r = vBV(r.T, 64, false)
	}
	if l.K == KPtr && (r.K == KPtr || r.W == 0) {
		pl := l.Prov
		l = vBV(l.T, 64, false)
		r = coerce(V{K: KBV, T: r.T, W: r.W, Signed: false}, 64, false)
		if r.K == KPtr {
			r = vBV(r.T, 64, false)
		}
		if op == "+" || op == "-" {
			res := env.arith(op, l, r)
			return vPtr(res.T, pl)
		}
	}
	if l.K != KBV || r.K != KBV {
		cfail("operator %s on non-integer operands", op)
	}
	if l.W == 0 && r.W == 0 {
		a, _ := new(big.Int).SetString(l.T, 10)
		b, _ := new(big.Int).SetString(r.T, 10)
		switch op {
		case "+":
			return untyped(new(big.Int).Add(a, b))
		case "-":
			return untyped(new(big.Int).Sub(a, b))
		case "*":
			return untyped(new(big.Int).Mul(a, b))
		case "<<":
			return untyped(new(big.Int).Lsh(a, uint(b.Uint64())))
		case "/":
			return untyped(new(big.Int).Quo(a, b))
		case "<", "<=", ">", ">=":
			c := a.Cmp(b)
			res := (op == "<" && c < 0) || (op == "<=" && c <= 0) || (op == ">" && c > 0) || (op == ">=" && c >= 0)
			return vBool(strconv.FormatBool(res))
		}
		cfail("operator %s on two untyped constants", op)
	}
	if op == "<<" || op == ">>" {
		if l.W == 0 {
			cfail("shift of untyped constant")
		}
		r = coerce(r, l.W, false)
		cnt := r.T
		if r.W != l.W {
			if r.W > l.W {
				cnt = ite(app("bvuge", r.T, bvLit(uint64(l.W), r.W)), bvLit(uint64(l.W), l.W), extract(r.T, l.W-1, 0))
			} else {
				cnt = zext(r.T, r.W, l.W)
			}
		}
		if op == "<<" {
			return vBV(app("bvshl", l.T, cnt), l.W, l.Signed)
		}
		if l.Signed {
			return vBV(app("bvashr", l.T, cnt), l.W, true)
		}
		return vBV(app("bvlshr", l.T, cnt), l.W, false)
	}
	if l.W == 0 {
		l = coerce(l, r.W, r.Signed)
	}
	if r.W == 0 {
		r = coerce(r, l.W, l.Signed)
	}
	if l.W != r.W {
		cfail("width mismatch in %s: %d vs %d", op, l.W, r.W)
	}
	return env.arith(op, l, r)
}

func (env *CEnv) arith(op string, l, r V) V {
	signed := l.Signed
	switch op {
	case "+":
		return vBV(bvadd(l.T, r.T), l.W, signed)
	case "-":
		return vBV(bvsubw(l.T, r.T, l.W), l.W, signed)
	case "*":
		return vBV(app("bvmul", l.T, r.T), l.W, signed)
	case "/":
		if signed {
			return vBV(app("bvsdiv", l.T, r.T), l.W, signed)
		}
		return vBV(app("bvudiv", l.T, r.T), l.W, signed)
	case "%":
		if signed {
			return vBV(app("bvsrem", l.T, r.T), l.W, signed)
		}
		return vBV(app("bvurem", l.T, r.T), l.W, signed)
	case "&":
		return vBV(app("bvand", l.T, r.T), l.W, signed)
	case "|":
		return vBV(app("bvor", l.T, r.T), l.W, signed)
	case "^":
		return vBV(app("bvxor", l.T, r.T), l.W, signed)
	case "&^":
		return vBV(app("bvand", l.T, app("bvnot", r.T)), l.W, signed)
	case "<", "<=", ">", ">=":
		m := map[string][2]string{"<": {"bvslt", "bvult"}, "<=": {"bvsle", "bvule"}, ">": {"bvsgt", "bvugt"}, ">=": {"bvsge", "bvuge"}}
		if signed {
			return vBool(app(m[op][0], l.T, r.T))
		}
		return vBool(app(m[op][1], l.T, r.T))
	}
	cfail("unknown operator %s", op)
	return V{}
}

func (env *CEnv) equal(l, r V) string {
	if l.K == KSeq || r.K == KSeq {
		return seqEq(env, env.toSeq(l), env.toSeq(r))
	}
	isNil := func(v V) bool {
		return v.K == KPtr && v.Typ != nil && v.Typ == types.Typ[types.UntypedNil]
	}
	if isNil(r) && l.K == KTuple {
		return eq(l.Fs[0].T, bvLit(0, 64))
	}
	if isNil(l) && r.K == KTuple {
		return eq(r.Fs[0].T, bvLit(0, 64))
	}
	if l.K == KTuple && r.K == KTuple {
		if len(l.Fs) != len(r.Fs) {
			cfail("comparing tuples of different shape")
		}
		var cs []string
		for i := range l.Fs {
			cs = append(cs, env.equal(l.Fs[i], r.Fs[i]))
		}
		return and(cs...)
	}
	if l.K == KBool && r.K == KBool {
		return eq(l.T, r.T)
	}
	if (l.K == KBV || l.K == KPtr) && (r.K == KBV || r.K == KPtr) {
		if l.W == 0 && r.W == 0 {
			return strconv.FormatBool(l.T == r.T)
		}
		if l.W == 0 {
			l = coerce(l, r.W, r.Signed)
		}
		if r.W == 0 {
			r = coerce(r, l.W, l.Signed)
		}
		if l.W != r.W {
			cfail("width mismatch in comparison: %d vs %d", l.W, r.W)
		}
		return eq(l.T, r.T)
	}
	if l.K == KMem && r.K == KMem {
		return eq(l.T, r.T)
	}
	cfail("cannot compare these values")
	return ""
}

func (env *CEnv) toSeq(v V) *Seq {
	if v.K == KSeq {
		return v.Seq
	}
	if v.K == KTuple && len(v.Fs) >= 2 && v.Fs[0].K == KPtr {
		// content of a byte slice / string in the memory current for this evaluation
		p := v.Fs[0]
		m := env.mem(spaceOf(p, "B"))
		if m == nil {
			cfail("no memory for sequence")
		}
		return &Seq{Len: v.Fs[1].T, Byte: func(i string) string {
			a := bvadd(p.T, i)
			m.facts(env.st, a)
			return app("select", m.term, a)
		}}
	}
	cfail("value is not a sequence")
	return nil
}

func (env *CEnv) call(e *CExpr) V {
	if m, ok := env.st.x.specs.Macros[e.Tok]; ok {
		if len(e.Args) != len(m.Params) {
			cfail("macro %s: %d arguments, want %d", e.Tok, len(e.Args), len(m.Params))
		}
		saved := map[string]*V{}
		for i, p := range m.Params {
			v := env.eval(e.Args[i])
			if old, had := env.vars[p]; had {
				o := old
				saved[p] = &o
			} else {
				saved[p] = nil
			}
			env.vars[p] = v
		}
		defer func() {
			for p, o := range saved {
				if o == nil {
					delete(env.vars, p)
				} else {
					env.vars[p] = *o
				}
			}
		}()
		return env.eval(m.Body)
	}
	arg := func(i int) V {
		if i >= len(e.Args) {
			cfail("%s: missing argument %d", e.Tok, i)
		}
		return env.eval(e.Args[i])
	}
	bv := func(i, w int) V {
		v := arg(i)
		if v.K == KPtr {
			v = vBV(v.T, 64, false)
		}
		if v.K != KBV {
			cfail("%s: argument %d is not an integer", e.Tok, i)
		}
		v = coerce(v, w, true)
		return v
	}
	switch e.Tok {
	case "old":
		saved := env.inOld
		env.inOld = true
		defer func() { env.inOld = saved }()
		return arg(0)
	case "atexit":
		// atexit(k, e): e read in the memory as it was when loop k was left through its head
		if len(e.Args) != 2 || e.Args[0].Op != "lit" {
			cfail("atexit(k, expr) needs a loop ordinal")
		}
		k, err := strconv.Atoi(e.Args[0].Tok)
		if err != nil || env.exitMem == nil || env.exitMem[k] == nil {
			cfail("atexit: loop %s was not left through its head on this path (guard the clause with loopdone_%s)", e.Args[0].Tok, e.Args[0].Tok)
		}
		savedIn, savedOld := env.inOld, env.oldMem
		env.inOld, env.oldMem = true, env.exitMem[k]
		defer func() { env.inOld, env.oldMem = savedIn, savedOld }()
		return arg(1)
	case "athead":
		// the argument read in the memory at the head of the current loop iteration
		if env.headMem == nil {
			cfail("athead: not inside a loop with an invariant")
		}
		savedIn, savedOld := env.inOld, env.oldMem
		env.inOld, env.oldMem = true, env.headMem
		defer func() { env.inOld, env.oldMem = savedIn, savedOld }()
		return arg(0)
	case "len":
		v := arg(0)
		if v.K == KSeq {
			return vBV(v.Seq.Len, 64, true)
		}
		if v.K == KTuple && len(v.Fs) >= 2 {
			return v.Fs[1]
		}
		cfail("len of non-sequence")
	case "cap":
		v := arg(0)
		if v.K == KTuple && len(v.Fs) == 3 {
			return v.Fs[2]
		}
		cfail("cap of non-slice")
	case "bytes":
		return V{K: KSeq, Seq: env.toSeq(arg(0))}
	case "at":
		// at(s, off, seq, bound): seq (of length <= bound) occurs in s at offset off
		s := env.toSeq(arg(0))
		off := coerce(bv(1, 64), 64, true)
		sq := env.toSeq(arg(2))
		if len(e.Args) != 4 || e.Args[3].Op != "lit" {
			cfail("at(s, off, seq, bound) needs a literal bound")
		}
		bound, _ := strconv.Atoi(e.Args[3].Tok)
		cs := []string{app("bvule", sq.Len, bvLit(uint64(bound), 64))}
		if env.prove && env.pol && !env.st.inLate {
			base := env.st.define("atoff", sortBV(64), off.T)
			for k := 0; k < bound; k++ {
				env.st.addPool(64, bvadd(base, bvLit(uint64(k), 64)))
			}
		}
		for k := 0; k < bound; k++ {
			kk := bvLit(uint64(k), 64)
			cs = append(cs, implies(app("bvult", kk, sq.Len), eq(s.Byte(bvadd(off.T, kk)), sq.Byte(kk))))
		}
		return vBool(and(cs...))
	case "vsum", "vterm":
		// vsum(s, n): the value of the base-128 groups s[0..n), n <= 10: OR of (s[i]&0x7f) << 7i
		// vterm(s, n): s[0..n-1) have the continuation bit, s[n-1] does not (n in 1..10)
		s := env.toSeq(arg(0))
		n := coerce(bv(1, 64), 64, true)
		if e.Tok == "vsum" {
			t := bvLit(0, 64)
			for i := 9; i >= 0; i-- {
				k := bvLit(uint64(i), 64)
				g := app("bvshl", zext(app("bvand", s.Byte(k), bvLit(0x7f, 8)), 8, 64), bvLit(uint64(7*i), 64))
				t = app("bvor", ite(app("bvslt", k, n.T), g, bvLit(0, 64)), t)
			}
			return vBV(t, 64, false)
		}
		cs := []string{app("bvsle", bvLit(1, 64), n.T), app("bvsle", n.T, bvLit(10, 64))}
		for i := 0; i < 10; i++ {
			k := bvLit(uint64(i), 64)
			cs = append(cs, implies(app("bvslt", bvLit(uint64(i+1), 64), n.T), app("bvuge", s.Byte(k), bvLit(0x80, 8))))
			cs = append(cs, implies(eq(bvLit(uint64(i+1), 64), n.T), app("bvult", s.Byte(k), bvLit(0x80, 8))))
		}
		return vBool(and(cs...))
	case "abstractseq":
		// abstractseq(name, len, args...): an unspecified byte sequence that is a function of args
		if len(e.Args) < 2 || e.Args[0].Op != "ident" {
			cfail("abstractseq(name, len, args...)")
		}
		ln := coerce(bv(1, 64), 64, true)
		var terms, sorts []string
		for i := 2; i < len(e.Args); i++ {
			a := arg(i)
			var ls []V
			leaves(a, &ls)
			for _, l := range ls {
				if l.K == KFunc || l.K == KSeq {
					continue
				}
				terms = append(terms, l.T)
				sorts = append(sorts, sortOf(l))
			}
		}
		name := "aseq_" + e.Args[0].Tok
		env.st.x.declareUF(name, append(sorts, sortBV(64)), sortBV(8))
		return V{K: KSeq, Seq: &Seq{Len: ln.T, Byte: func(i string) string { return app(name, append(append([]string(nil), terms...), i)...) }}}
	case "empty":
		return V{K: KSeq, Seq: &Seq{Len: bvLit(0, 64), Byte: func(string) string { return bvLit(0, 8) }}}
	case "venc":
		u := bv(0, 64)
		if u.W != 64 {
			cfail("venc needs a 64-bit argument")
		}
		if env.harvest {
			env.st.addPool(64, env.st.define("inst", sortBV(64), u.T))
		}
		return V{K: KSeq, Seq: &Seq{Max: 10, Len: app("vlen", u.T), Byte: func(i string) string { return app("vbyte", u.T, i) }}}
	case "single":
		b := bv(0, 8)
		return V{K: KSeq, Seq: &Seq{Max: 1, Len: bvLit(1, 64), Byte: func(string) string { return b.T }}}
	case "le32", "le64":
		n := 4
		if e.Tok == "le64" {
			n = 8
		}
		x := bv(0, 8*n)
		if x.W != 8*n {
			cfail("%s needs a %d-bit argument", e.Tok, 8*n)
		}
		return V{K: KSeq, Seq: &Seq{Max: n, Len: bvLit(uint64(n), 64), Byte: func(i string) string {
			t := bvLit(0, 8)
			for k := n - 1; k >= 0; k-- {
				t = ite(eq(i, bvLit(uint64(k), 64)), extract(x.T, 8*k+7, 8*k), t)
			}
			return t
		}}}
	case "ite":
		c := arg(0)
		a, b := arg(1), arg(2)
		if a.K == KSeq || b.K == KSeq {
			sa, sb := env.toSeq(a), env.toSeq(b)
			return V{K: KSeq, Seq: &Seq{Cond: c.T, Then: sa, Else: sb, Len: ite(c.T, sa.Len, sb.Len), Byte: func(i string) string { return ite(c.T, sa.Byte(i), sb.Byte(i)) }}}
		}
		if a.K == KBV && b.K == KBV && a.W == 0 && b.W == 0 {
			a, b = coerce(a, 64, true), coerce(b, 64, true)
		}
		if a.W == 0 {
			a = coerce(a, b.W, b.Signed)
		}
		if b.W == 0 {
			b = coerce(b, a.W, a.Signed)
		}
		if a.K == KBool {
			return vBool(ite(c.T, a.T, b.T))
		}
		r := a
		r.T = ite(c.T, a.T, b.T)
		return r
	case "load8", "load16", "load32", "load64", "loadi8", "loadi16", "loadi32", "loadi64", "loadbool", "loadptr":
		p := arg(0)
		if p.K != KPtr {
			cfail("%s of non-pointer", e.Tok)
		}
		sp := spaceOf(p, "H")
		switch e.Tok {
		case "loadbool":
			return vBool(not(eq(env.load8(sp, p.T), bvLit(0, 8))))
		case "loadptr":
			return vPtr(env.loadN(sp, p.T, 8), &Prov{Space: "H", Region: "loaded"})
		}
		signed := strings.HasPrefix(e.Tok, "loadi")
		w, _ := strconv.Atoi(strings.TrimLeft(e.Tok, "loadi"))
		return vBV(env.loadN(sp, p.T, w/8), w, signed)
	case "loadtime":
		p := arg(0)
		tt := env.st.x.namedType("time.Time")
		if tt == nil {
			cfail("time.Time is not loaded")
		}
		return env.loadTyped(p, tt)
	case "loadstr", "loadslice":
		p := arg(0)
		sp := spaceOf(p, "H")
		ptr := vPtr(env.loadN(sp, p.T, 8), &Prov{Space: "B", Region: "owned"})
		ln := vBV(env.loadN(sp, bvadd(p.T, bvLit(8, 64)), 8), 64, true)
		// memory holds well-formed Go values: 0 <= len (<= cap) < 2^40
		env.st.assume(and(app("bvsle", bvLit(0, 64), ln.T), app("bvult", ln.T, bvLit(maxLen, 64))))
		if e.Tok == "loadstr" {
			return vTuple(ptr, ln)
		}
		cp := vBV(env.loadN(sp, bvadd(p.T, bvLit(16, 64)), 8), 64, true)
		env.st.assume(and(app("bvsle", ln.T, cp.T), app("bvult", cp.T, bvLit(maxLen, 64))))
		return vTuple(ptr, ln, cp)
	case "sext64", "zext64", "u64", "i64", "u32", "i32", "u16", "i16", "u8", "i8", "int", "uint64", "int64", "uint32", "int32", "uint16", "int16", "uint8", "int8", "byte", "uint":
		v := arg(0)
		if v.K == KBool {
			cfail("%s of bool", e.Tok)
		}
		name := e.Tok
		switch name {
		case "sext64":
			if v.W == 0 {
				return coerce(v, 64, true)
			}
			return vBV(sext(v.T, v.W, 64), 64, true)
		case "zext64":
			if v.W == 0 {
				return coerce(v, 64, false)
			}
			return vBV(zext(v.T, v.W, 64), 64, false)
		case "u64":
			name = "uint64"
		case "i64":
			name = "int64"
		case "u32":
			name = "uint32"
		case "i32":
			name = "int32"
		case "u16":
			name = "uint16"
		case "i16":
			name = "int16"
		case "u8":
			name = "uint8"
		case "i8":
			name = "int8"
		}
		w, signed, _ := typeByName(name, nil)
		if v.W == 0 {
			return coerce(v, w, signed)
		}
		// Go conversion: extension is decided by the source signedness
		return vBV(resize(v.T, v.W, w, v.Signed), w, signed)
	case "boxed":
		// boxed(pkg.Type, v1, v2, ...): an interface value holding a struct of that type with these field values
		if len(e.Args) < 1 {
			cfail("boxed(Type, values...)")
		}
		tname := e.Args[0].String()
		nt := env.st.x.namedType(tname)
		if nt == nil {
			cfail("boxed: unknown type %s", tname)
		}
		var fs []V
		for i := 1; i < len(e.Args); i++ {
			if a := e.Args[i]; a.Op == "str" {
				// a literal for a string field is the program's constant of that content
				if stt, ok := nt.Underlying().(*types.Struct); ok && i-1 < stt.NumFields() {
					if b, ok := stt.Field(i - 1).Type().Underlying().(*types.Basic); ok && b.Kind() == types.String {
						if s, err := strconv.Unquote(a.Tok); err == nil {
							fs = append(fs, env.st.constString(s))
							continue
						}
					}
				}
			}
			fs = append(fs, arg(i))
		}
		inner := V{K: KTuple, Fs: fs, Typ: nt}
		data := vPtr(bvLit(0x1000, 64), nil)
		data.Box = &inner
		return V{K: KTuple, Fs: []V{vPtr(env.st.x.typeID(nt), nil), data}}
	case "tid", "rtype":
		// tid(T): the type word of an interface holding a value of basic type T;
		// rtype(T): reflect.TypeOf of such a value
		if len(e.Args) == 1 && e.Args[0].Op == "str" && e.Tok == "rtype" {
			// rtype("pkg.Type"): reflect.TypeOf of a value of that named type
			name, err := strconv.Unquote(e.Args[0].Tok)
			if err != nil {
				cfail("rtype: %v", err)
			}
			nt := env.st.x.namedType(name)
			if nt == nil {
				cfail("rtype: unknown type %s", name)
			}
			id := env.st.x.typeID(nt)
			return V{K: KTuple, Fs: []V{vPtr(app("rtypT", id), nil), vPtr(app("rtypD", id), &Prov{Space: "H", Region: "meta"})}}
		}
		if len(e.Args) == 1 && e.Args[0].Op == "str" && e.Tok == "tid" {
			// tid("pkg.Type") / tid("*pkg.Type"): the type word of an interface holding a value of that named type
			name, err := strconv.Unquote(e.Args[0].Tok)
			if err != nil {
				cfail("tid: %v", err)
			}
			ptr := strings.HasPrefix(name, "*")
			nt := env.st.x.namedType(strings.TrimPrefix(name, "*"))
			if nt == nil {
				cfail("tid: unknown type %s", name)
			}
			if ptr {
				nt = types.NewPointer(nt)
			}
			return vPtr(env.st.x.typeID(nt), nil)
		}
		if len(e.Args) != 1 || e.Args[0].Op != "ident" {
			cfail("%s(T) needs a basic type name", e.Tok)
		}
		var bt types.Type
		for _, b := range types.Typ {
			if b.Name() == e.Args[0].Tok {
				bt = b
			}
		}
		if bt == nil {
			cfail("%s: unknown basic type %s", e.Tok, e.Args[0].Tok)
		}
		id := env.st.x.typeID(bt)
		if e.Tok == "tid" {
			return vPtr(id, nil)
		}
		return V{K: KTuple, Fs: []V{vPtr(app("rtypT", id), nil), vPtr(app("rtypD", id), &Prov{Space: "H", Region: "meta"})}}
	case "bits":
		if len(e.Args) == 1 && e.Args[0].Op == "ident" {
			if w, _, ok := typeByName(e.Args[0].Tok, env.tparam); ok {
				return untyped(big.NewInt(int64(w)))
			}
		}
		cfail("bits(T) needs a type name")
	case "conv":
		// conv(T, x): Go conversion of x to the (type parameter) type T
		if len(e.Args) == 2 && e.Args[0].Op == "ident" {
			if w, signed, ok := typeByName(e.Args[0].Tok, env.tparam); ok {
				v := arg(1)
				if v.W == 0 {
					return coerce(v, w, signed)
				}
				return vBV(resize(v.T, v.W, w, v.Signed), w, signed)
			}
		}
		cfail("conv(T, x) needs a type name")
	case "loadT":
		// loadT(T, ptr): load a value of (type parameter) type T
		if len(e.Args) == 2 && e.Args[0].Op == "ident" {
			if w, signed, ok := typeByName(e.Args[0].Tok, env.tparam); ok {
				p := arg(1)
				return vBV(env.loadN(spaceOf(p, "H"), p.T, w/8), w, signed)
			}
		}
		cfail("loadT(T, ptr) needs a type name")
	case "disjoint":
		// disjoint(p, n, q, m): the byte ranges [p, p+n) and [q, q+m) do not overlap (an empty range overlaps nothing)
		if len(e.Args) != 4 {
			cfail("disjoint(p, n, q, m)")
		}
		pv := func(i int) string {
			v := arg(i)
			if v.K == KTuple && len(v.Fs) >= 1 {
				v = v.Fs[0]
			}
			if v.K != KPtr && v.K != KBV {
				cfail("disjoint: argument %d is not an address", i)
			}
			return v.T
		}
		nv := func(i int) string { return coerce(arg(i), 64, true).T }
		p, n, q, m := pv(0), nv(1), pv(2), nv(3)
		return vBool(or(eq(n, bvLit(0, 64)), eq(m, bvLit(0, 64)), app("bvule", bvadd(p, n), q), app("bvule", bvadd(q, m), p)))
	case "isnil":
		v := arg(0)
		if v.K == KTuple {
			return vBool(eq(v.Fs[0].T, bvLit(0, 64)))
		}
		return vBool(eq(v.T, bvLit(0, 64)))
	case "mem":
		// mem(H): the current (or old) memory array of a space, for heap-dependent spec functions
		if len(e.Args) == 1 && e.Args[0].Op == "ident" {
			m := env.mem(e.Args[0].Tok)
			if m == nil {
				cfail("unknown memory %s", e.Args[0].Tok)
			}
			return V{K: KMem, T: m.term}
		}
		cfail("mem(space)")
	}
	// specification function from the prelude
	fn := env.st.x.specs.SpecFns[e.Tok]
	if fn == nil {
		cfail("unknown function %s", e.Tok)
	}
	if len(e.Args) != len(fn.Params) {
		cfail("%s expects %d arguments", e.Tok, len(fn.Params))
	}
	var args []string
	for i, p := range fn.Params {
		switch p.Typ {
		case "bool":
			a := arg(i)
			if a.K != KBool {
				cfail("%s: argument %d must be bool", e.Tok, i)
			}
			args = append(args, a.T)
		case "ptr":
			a := arg(i)
			args = append(args, a.T)
		case "iface":
			a := arg(i)
			if a.K != KTuple || len(a.Fs) != 2 {
				cfail("%s: argument %d must be an interface value", e.Tok, i)
			}
			args = append(args, a.Fs[0].T, a.Fs[1].T)
		default:
			w, signed, ok := typeByName(p.Typ, env.tparam)
			if !ok {
				cfail("%s: unknown parameter type %s", e.Tok, p.Typ)
			}
			a := arg(i)
			if a.K == KPtr {
				a = vBV(a.T, 64, false)
			}
			a = coerce(a, w, signed)
			if a.K != KBV || a.W != w {
				cfail("%s: argument %d has width %d, want %d", e.Tok, i, a.W, w)
			}
			args = append(args, a.T)
		}
	}
	for _, sp := range fn.Mem {
		m := env.mem(sp)
		if m == nil {
			cfail("%s: no memory %s", e.Tok, sp)
		}
		args = append(args, m.term)
	}
	t := app(fn.SMT, args...)
	if len(args) == 0 {
		t = fn.SMT
	}
	switch fn.Ret.Typ {
	case "bool":
		return vBool(t)
	case "ptr":
		return vPtr(t, nil)
	}
	w, signed, ok := typeByName(fn.Ret.Typ, env.tparam)
	if !ok {
		cfail("%s: unknown result type %s", e.Tok, fn.Ret.Typ)
	}
	return vBV(t, w, signed)
}

// ghostCall evaluates @Name(args): the result of another function as given by
// its contract (a pure contract yields an uninterpreted function application,
// otherwise a fresh value constrained by the callee's ensures clauses). The
// callee must not modify memory.
func (env *CEnv) ghostCall(e *CExpr) V {
	x := env.st.x
	key := e.Tok
	if !strings.Contains(key, ".") {
		// sibling method: same receiver prefix as the function the clause belongs to
		if i := strings.LastIndex(env.fn, "."); i >= 0 {
			key = env.fn[:i+1] + key
		}
	}
	con := x.specs.Contracts[key]
	var tp map[string]types.Type = env.tparam
	if con == nil {
		cfail("ghost call: no contract for %s", key)
	}
	sig := x.sigOf(key, env.fn)
	if sig == nil {
		cfail("ghost call: no signature known for %s", key)
	}
	var args []V
	for i, a := range e.Args {
		pi := i
		if sig.Recv() != nil {
			pi = i - 1
		}
		if a.Op == "str" && pi >= 0 && pi < sig.Params().Len() {
			if b, ok := sig.Params().At(pi).Type().Underlying().(*types.Basic); ok && b.Kind() == types.String {
				if s, err := strconv.Unquote(a.Tok); err == nil {
					// a literal handed to a string parameter is the program's constant of that content
					args = append(args, env.st.constString(s))
					continue
				}
			}
		}
		args = append(args, env.eval(a))
	}
	nparams := sig.Params().Len()
	if sig.Recv() != nil {
		nparams++
	}
	if len(args) != nparams {
		cfail("ghost call %s: %d arguments, want %d", key, len(args), nparams)
	}
	// shape untyped nil / constants after the parameter types
	for i := range args {
		pi := i
		if sig.Recv() != nil {
			pi = i - 1
		}
		if pi < 0 || pi >= sig.Params().Len() {
			continue
		}
		pt := sig.Params().At(pi).Type()
		a := args[i]
		if a.K == KPtr && a.Typ == types.Typ[types.UntypedNil] {
			args[i] = zeroOf(pt)
		} else if a.K == KBV && a.W == 0 {
			if b, ok := pt.Underlying().(*types.Basic); ok {
				if w, s, ok2 := basicInfo(b); ok2 {
					args[i] = coerce(a, w, s)
				}
			}
		}
	}
	if len(con.Assigns) > 0 || len(con.Writes) > 0 || con.Appends != nil {
		cfail("ghost call %s: callee modifies memory", key)
	}
	st := env.st
	// the same ghost call (same callee, arguments and memories) denotes the same value
	memoKey := key
	var addKey func(a V)
	addKey = func(a V) {
		var ls []V
		leaves(a, &ls)
		for _, l := range ls {
			if l.Box != nil {
				memoKey += "|box("
				addKey(*l.Box)
				memoKey += ")"
				continue
			}
			memoKey += "|" + l.T
		}
	}
	for _, a := range args {
		addKey(a)
	}
	for _, sp := range []string{"H", "B", "G"} {
		if m := env.mem(sp); m != nil {
			memoKey += "|" + m.term
		}
	}
	if st.ghostMemo == nil {
		st.ghostMemo = map[string][]V{}
	}
	if r, ok := st.ghostMemo[memoKey]; ok {
		if len(r) != 1 {
			t := vTuple(r...)
			t.Typ = sig.Results()
			return t
		}
		return r[0]
	}
	var results []V
	if con.Pure {
		// memory-dependent pure functions see the memory current for this evaluation
		saved := map[string]*MemVer{}
		if env.inOld && env.oldMem != nil {
			for _, sp := range con.MemDep {
				if m, ok := env.oldMem[sp]; ok {
					saved[sp] = st.mem[sp]
					st.mem[sp] = m
				}
			}
		}
		results = x.pureResults(st, con, key, args, sig)
		for sp, m := range saved {
			st.mem[sp] = m
		}
	} else {
		for i := 0; i < sig.Results().Len(); i++ {
			results = append(results, st.symbolic(sig.Results().At(i).Type(), "ghost_"+sanitize(key), nil, false))
		}
	}
	vars := map[string]V{}
	names := x.paramNamesOf(key, sig)
	for i, n := range names {
		if i < len(args) {
			vars[n] = args[i]
		}
	}
	if sig.Recv() != nil && len(args) > 0 {
		vars["self"] = args[0]
	}
	for i, n := range resultNames(sig) {
		vars[n] = results[i]
	}
	if len(results) == 1 {
		vars["result"] = results[0]
	}
	sub := &CEnv{st: st, oldMem: env.oldMem, vars: vars, tparam: tp, fn: key, inOld: env.inOld, inGhost: true}
	for _, en := range con.Ensures {
		if mentionsCallRecords(en.Expr) {
			continue
		}
		if env.inGhost && env.fn == key {
			// a law of key that mentions key itself: the inner application is the bare function
			break
		}
		t, err := sub.evalBool(en.Expr)
		if err != nil {
			cfail("ghost call %s: %v", key, err)
		}
		st.assume(t)
	}
	st.ghostMemo[memoKey] = results
	if len(results) != 1 {
		t := vTuple(results...)
		t.Typ = sig.Results()
		return t
	}
	return results[0]
}

// loadTyped reads a value of Go type t at addr in the memory current for this evaluation.
func (env *CEnv) loadTyped(addr V, t types.Type) V {
	space := spaceOf(addr, "H")
	if addr.Prov != nil && (strings.HasPrefix(addr.Prov.Region, "fresh#") || strings.HasPrefix(addr.Prov.Region, "arg:")) && space == "H" {
		env.st.loadFresh = true
		defer func() { env.st.loadFresh = false }()
	}
	if addr.Prov != nil && addr.Prov.Region == "meta" && space == "H" {
		env.st.loadMeta = true
		defer func() { env.st.loadMeta = false }()
		env.st.assumeMeta(addr.T, sizeof(t))
	}
	return env.st.withTypeInv(t, build(t, func(ls leafShape) V {
		a := bvadd(addr.T, bvLit(uint64(ls.Off), 64))
		switch ls.K {
		case KBool:
			return vBool(not(eq(env.load8(space, a), bvLit(0, 8))))
		case KPtr:
			t := env.loadN(space, a, 8)
			if p, ok := env.st.shadow[space+"@"+a]; ok && (strings.HasPrefix(p.Space, "H:sep") || !env.inOld) {
				// the provenance recorded when this slot was last stored on this path
				return vPtr(t, p)
			}
			if ls.ByteElem {
				return vPtr(t, &Prov{Space: "B", Region: "owned"})
			}
			reg := "heap"
			if addr.Prov != nil && addr.Prov.Region == "meta" {
				reg = "meta"
			}
			return vPtr(t, &Prov{Space: "H", Region: reg})
		}
		return vBV(env.loadN(space, a, ls.W/8), ls.W, ls.Signed)
	}))
}

func maxOf(a, b int) int {
	if a > 0 && b > 0 {
		if a < b {
			return a
		}
		return b
	}
	if a > 0 {
		return a
	}
	return b
}
