package main

import "fmt"

// A memory is an SMT array (BV64 -> BV8). Versions form a chain; stores are
// native SMT stores, havocs / sequence writes introduce a fresh array constant
// whose relation to its base is instantiated lazily at every address that is
// read (engine-side instantiation keeps every query quantifier free).

type memKind int

const (
	mBase  memKind = iota // symbolic initial contents
	mZero                 // all zero (fresh local object)
	mStore                // term = (store base.term addr byte) ...
	mHavoc                // fresh F; keep(a) => F[a] = base[a]
	mWrite                // fresh F; a in [at,at+n) => F[a] = byteAt(a-at) else base[a]
)

type MemVer struct {
	kind memKind
	term string
	base *MemVer
	// mHavoc
	keep func(a string) string
	// mWrite
	at, n  string
	byteAt func(st *State, k string) string // k is the BV64 offset inside the written range
	seen   map[string]bool                  // addresses already instantiated (per MemVer; facts are path independent)
}

// facts adds to st the instantiation facts needed for reading address a of m.
func (m *MemVer) facts(st *State, a string) {
	for cur := m; cur != nil; cur = cur.base {
		switch cur.kind {
		case mBase, mZero:
			return
		case mStore:
			continue
		case mHavoc:
			key := a
			if st.inst[cur] == nil {
				st.inst[cur] = map[string]bool{}
			}
			if st.inst[cur][key] {
				return
			}
			st.inst[cur][key] = true
			if cur.keep != nil {
				k := cur.keep(a)
				if k != "false" {
					st.assume(implies(k, eq(app("select", cur.term, a), app("select", cur.base.term, a))))
				}
			}
		case mWrite:
			key := a
			if st.inst[cur] == nil {
				st.inst[cur] = map[string]bool{}
			}
			if st.inst[cur][key] {
				return
			}
			st.inst[cur][key] = true
			// a in [at, at+n)  <=>  (a - at) <u n   (modular; sizes never wrap)
			k := bvsubw(a, cur.at, 64)
			in := app("bvult", k, cur.n)
			if v, _, ok := litVal(cur.n); ok && v == 1 {
				in = eq(a, cur.at)
			}
			st.assume(eq(app("select", cur.term, a), ite(in, cur.byteAt(st, k), app("select", cur.base.term, a))))
		}
	}
}

func (st *State) newMemName(prefix string) string {
	st.x.fresh++
	n := fmt.Sprintf("%s_%d", prefix, st.x.fresh)
	st.decl(n, sortMem)
	return n
}

// load8 reads one byte.
func (st *State) load8(space string, a string) string {
	m := st.mem[space]
	if m == nil {
		panic("load from unknown memory space " + space)
	}
	m.facts(st, a)
	if m.kind == mZero {
		return bvLit(0, 8)
	}
	return app("select", m.term, a)
}

// loadN reads n bytes little-endian as a BV(8n).
func (st *State) loadN(space string, a string, n int) string {
	if n == 1 {
		return st.load8(space, a)
	}
	parts := make([]string, n)
	for i := 0; i < n; i++ {
		parts[n-1-i] = st.load8(space, bvadd(a, bvLit(uint64(i), 64)))
	}
	t := "(concat"
	for _, p := range parts {
		t += " " + p
	}
	return t + ")"
}

// storeN writes a BV(8n) value little-endian.
func (st *State) storeN(space string, a string, val string, n int) {
	m := st.mem[space]
	if m == nil {
		panic("store to unknown memory space " + space)
	}
	t := m.term
	// name the value once
	vn := st.define("sv", sortBV(8*n), val)
	for i := 0; i < n; i++ {
		b := vn
		if n > 1 {
			b = extract(vn, 8*i+7, 8*i)
		}
		t = app("store", t, bvadd(a, bvLit(uint64(i), 64)), b)
	}
	name := st.define("M"+space, sortMem, t)
	st.mem[space] = &MemVer{kind: mStore, term: name, base: m}
	st.modified[space] = true
}

// havoc replaces memory space by a fresh array related to the old one by keep.
func (st *State) havoc(space string, keep func(a string) string) {
	m := st.mem[space]
	if m == nil {
		return
	}
	name := st.newMemName("M" + space + "h")
	st.mem[space] = &MemVer{kind: mHavoc, term: name, base: m, keep: keep}
	st.modified[space] = true
}

// writeSeq models writing n bytes given by byteAt at address at.
func (st *State) writeSeq(space string, at, n string, byteAt func(st *State, k string) string) {
	m := st.mem[space]
	name := st.newMemName("M" + space + "w")
	st.mem[space] = &MemVer{kind: mWrite, term: name, base: m, at: at, n: n, byteAt: byteAt}
	st.modified[space] = true
}
