package main

import (
	"fmt"
	"strings"
)

// A memory is an SMT array (BV64 -> BV8). Versions form a chain; stores are
// native SMT stores, havocs / sequence writes introduce a fresh array constant
// whose relation to its base is instantiated lazily at every address that is
// read (engine-side instantiation keeps every query quantifier free).

type memKind int

const (
	mBase  memKind = iota // symbolic initial contents
	mZero                 // all zero (fresh local object)
	mStore                // term = (store base.term addr byte) ...
	mHavoc                // fresh F; keep(a) => F[a] = base[a]
	mWrite                // fresh F; a in [at,at+n) => F[a] = byteAt(a-at) else base[a]
)

type MemVer struct {
	kind memKind
	term string
	base *MemVer
	// mHavoc
	keep func(a string) string
	// mWrite
	at, n  string
	byteAt func(st *State, k string) string // k is the BV64 offset inside the written range
	seen   map[string]bool                  // addresses already instantiated (per MemVer; facts are path independent)
	// mStore: n bytes of sval (little-endian) written at at
	sval  string
	sn    int
	fresh bool // the target is an object allocated by the function under analysis
}

// facts adds to st the instantiation facts needed for reading address a of m.
func (m *MemVer) facts(st *State, a string) {
	for cur := m; cur != nil; cur = cur.base {
		switch cur.kind {
		case mBase, mZero:
			return
		case mStore:
			continue
		case mHavoc:
			key := a
			if st.inst[cur] == nil {
				st.inst[cur] = map[string]bool{}
			}
			if st.inst[cur][key] {
				return
			}
			st.inst[cur][key] = true
			if cur.keep != nil {
				k := cur.keep(a)
				if st.loadFresh {
					// an object allocated by this function is not codec metadata: that disjunct of the
					// frame is dropped (weakening an assumption), which spares the solver a case split
					k = strings.ReplaceAll(k, "(ismeta "+a+")", "false")
					if k == "(or false)" {
						k = "false"
					}
				}
				if k != "false" {
					st.assume(implies(k, eq(app("select", cur.term, a), app("select", cur.base.term, a))))
				}
			}
		case mWrite:
			key := a
			if st.inst[cur] == nil {
				st.inst[cur] = map[string]bool{}
			}
			if st.inst[cur][key] {
				return
			}
			st.inst[cur][key] = true
			if cur.fresh && st.loadMeta {
				// metadata exists before the call; this write fills an object allocated during it
				st.assume(eq(app("select", cur.term, a), app("select", cur.base.term, a)))
				continue
			}
			// a in [at, at+n)  <=>  (a - at) <u n   (modular; sizes never wrap)
			k := st.x.addrDiff(a, cur.at)
			in := app("bvult", k, cur.n)
			if idx, cnt, ok := st.x.elemRange(a, cur.at, cur.n); ok && st.boundedIdx[idx] {
				// element idx of an array of cnt elements that starts at at: inside exactly when idx < cnt
				in = app("bvult", idx, cnt)
			}
			if kv, _, ok1 := litVal(k); ok1 {
				if nv, _, ok2 := litVal(cur.n); ok2 {
					// both constant: decided here
					if kv < nv {
						st.assume(eq(app("select", cur.term, a), cur.byteAt(st, k)))
					} else {
						st.assume(eq(app("select", cur.term, a), app("select", cur.base.term, a)))
					}
					continue
				}
			}
			if v, _, ok := litVal(cur.n); ok && v == 1 {
				in = eq(k, bvLit(0, 64))
			}
			st.assume(eq(app("select", cur.term, a), ite(in, cur.byteAt(st, k), app("select", cur.base.term, a))))
		}
	}
}

func (st *State) newMemName(prefix string) string {
	st.x.fresh++
	n := fmt.Sprintf("%s_%d", sanitize(prefix), st.x.fresh)
	st.decl(n, sortMem)
	return n
}

// load8 reads one byte.
func (st *State) load8(space string, a string) string {
	m := st.mem[space]
	if m == nil {
		panic("load from unknown memory space " + space)
	}
	return st.read8(m, a)
}

// maxPendingStores bounds the read-over-write resolution done by the engine;
// beyond it the remaining chain is left to the solver's array theory.
const maxPendingStores = 20

// read8 reads address a of memory version m. Stores are resolved by the engine
// where the distance between the two addresses is a syntactic constant (the
// common base pointer cancels): a store that cannot overlap is skipped, a store
// that covers the address yields its byte. Stores at a symbolically unrelated
// address become an if-then-else on (a - at) <u n. The result is equal to
// (select m.term a) by the read-over-write axioms.
func (st *State) read8(m *MemVer, a string) string {
	type pending struct {
		cond, b string
	}
	cur := m
	var pend []pending
	resolved := ""
	// element stores already decided by an index equality on this walk: a later (older) store to
	// the same element and byte is shadowed by the newer one under the same condition
	seenCond := map[string]bool{}
	for cur != nil && cur.kind == mStore && cur.sn > 0 {
		if len(pend) >= maxPendingStores {
			break
		}
		if cur.fresh && st.loadMeta {
			// codec metadata exists before the call: it never overlaps an object allocated during it
			cur = cur.base
			continue
		}
		d := st.x.addrDiff(a, cur.at)
		if v, _, ok := litVal(d); ok {
			if v < uint64(cur.sn) {
				resolved = storedByte(cur, v)
				break
			}
			cur = cur.base
			continue
		}
		// two elements k and i of one array, both indexes known to lie in [0, 2^40): the addresses
		// overlap exactly when the indexes do (no arithmetic is left to the solver)
		if k, i, es, c, ok := st.x.elemDiff(a, cur.at); ok && uint64(cur.sn) <= es && st.boundedIdx[k] && st.boundedIdx[i] {
			var cond string
			var off uint64
			switch {
			case c >= 0 && uint64(c) < uint64(cur.sn):
				cond, off = eq(k, i), uint64(c)
			case c < 0 && uint64(int64(es)+c) < uint64(cur.sn):
				cond, off = eq(k, bvadd(i, bvLit(1, 64))), uint64(int64(es)+c)
			default:
				cur = cur.base
				continue
			}
			if cond == "true" {
				resolved = storedByte(cur, off)
				break
			}
			if cond == "false" {
				cur = cur.base
				continue
			}
			if !seenCond[cond] {
				seenCond[cond] = true
				pend = append(pend, pending{cond, storedByte(cur, off)})
			}
			cur = cur.base
			continue
		}
		var in, b string
		if cur.sn == 1 {
			in = eq(d, bvLit(0, 64))
			b = cur.sval
		} else {
			in = app("bvult", d, bvLit(uint64(cur.sn), 64))
			st.elemLemma(a, cur.at, in, uint64(cur.sn))
			// byte d of the stored value, selected by the low bits of d (d < n holds where it is used)
			dl := st.define("bo", sortBV(4), extract(d, 3, 0))
			b = storedByte(cur, uint64(cur.sn-1))
			for k := cur.sn - 2; k >= 0; k-- {
				b = ite(eq(dl, bvLit(uint64(k), 4)), storedByte(cur, uint64(k)), b)
			}
		}
		pend = append(pend, pending{in, b})
		cur = cur.base
	}
	val := resolved
	if val == "" {
		if cur == nil {
			panic("read8: memory chain without a base")
		}
		cur.facts(st, a)
		if cur.kind == mZero {
			val = bvLit(0, 8)
		} else {
			val = app("select", cur.term, a)
		}
	}
	for i := len(pend) - 1; i >= 0; i-- {
		val = ite(pend[i].cond, pend[i].b, val)
	}
	return val
}

// wholeValue recognises (concat (extract hi..) ... (extract 7 0 v)) over all the bytes of one value v.
func (x *Exec) wholeValue(parts []string) string {
	n := len(parts)
	// all bytes literal: one literal
	if n <= 8 {
		var v uint64
		lit := true
		for _, p := range parts {
			b, w, ok := litVal(p)
			if !ok || w != 8 {
				lit = false
				break
			}
			v = v<<8 | b
		}
		if lit {
			return bvLit(v, 8*n)
		}
	}
	val := ""
	for i, p := range parts {
		k := n - 1 - i // byte index of this part
		pre := fmt.Sprintf("((_ extract %d %d) ", 8*k+7, 8*k)
		if !strings.HasPrefix(p, pre) || !strings.HasSuffix(p, ")") {
			return ""
		}
		v := p[len(pre) : len(p)-1]
		if val == "" {
			val = v
		} else if v != val {
			return ""
		}
	}
	x.defMu.Lock()
	w := x.valWidth[val]
	x.defMu.Unlock()
	if w != 8*n {
		return ""
	}
	return val
}

// elemLemma: when the read address and the store address are elements k and i of one array
// (a - at = es*(k-i) + c), the range test (a - at) <u n is decided by the indexes alone. The
// equivalence is a theorem of 64-bit arithmetic for indexes in [0, 2^40) and es <= 2^20; it is
// asserted guarded by those bounds, so that the solver need not reason about the multiplication.
func (st *State) elemLemma(a, at, in string, n uint64) {
	k, i, es, c, ok := st.x.elemDiff(a, at)
	if !ok || n > es {
		return
	}
	key := k + "|" + i + "|" + in
	if st.lemmaSeen == nil {
		st.lemmaSeen = map[string]bool{}
	}
	if st.lemmaSeen[key] {
		return
	}
	st.lemmaSeen[key] = true
	var simp string
	switch {
	case c >= 0 && uint64(c) < n:
		simp = eq(k, i)
	case c < 0 && uint64(int64(es)+c) < n:
		simp = eq(k, bvadd(i, bvLit(1, 64)))
	default:
		simp = "false"
	}
	lim := bvLit(maxLen, 64)
	bounds := and(app("bvult", k, lim), app("bvult", i, lim))
	st.assume(implies(bounds, eq(in, simp)))
}

func storedByte(m *MemVer, i uint64) string {
	if m.sn == 1 {
		return m.sval
	}
	return extract(m.sval, int(8*i+7), int(8*i))
}

// loadN reads n bytes little-endian as a BV(8n).
func (st *State) loadN(space string, a string, n int) string {
	if n == 1 {
		return st.load8(space, a)
	}
	parts := make([]string, n)
	for i := 0; i < n; i++ {
		parts[n-1-i] = st.load8(space, bvadd(a, bvLit(uint64(i), 64)))
	}
	if w := st.x.wholeValue(parts); w != "" {
		return w
	}
	t := "(concat"
	for _, p := range parts {
		t += " " + p
	}
	return t + ")"
}

// storeN writes a BV(8n) value little-endian.
func (st *State) storeN(space string, a string, val string, n int) {
	m := st.mem[space]
	if m == nil {
		panic("store to unknown memory space " + space)
	}
	t := m.term
	// name the value once
	vn := st.define("sv", sortBV(8*n), val)
	st.x.defMu.Lock()
	st.x.valWidth[vn] = 8 * n
	st.x.defMu.Unlock()
	for i := 0; i < n; i++ {
		b := vn
		if n > 1 {
			b = extract(vn, 8*i+7, 8*i)
		}
		t = app("store", t, bvadd(a, bvLit(uint64(i), 64)), b)
	}
	name := st.define("M"+space, sortMem, t)
	st.mem[space] = &MemVer{kind: mStore, term: name, base: m, at: a, sval: vn, sn: n, fresh: st.storeFresh}
	st.modified[space] = true
}

// havoc replaces memory space by a fresh array related to the old one by keep.
func (st *State) havoc(space string, keep func(a string) string) {
	m := st.mem[space]
	if m == nil {
		return
	}
	name := st.newMemName("M" + space + "h")
	st.mem[space] = &MemVer{kind: mHavoc, term: name, base: m, keep: keep}
	st.modified[space] = true
}

// writeSeq models writing n bytes given by byteAt at address at.
func (st *State) writeSeq(space string, at, n string, byteAt func(st *State, k string) string) {
	m := st.mem[space]
	name := st.newMemName("M" + space + "w")
	st.mem[space] = &MemVer{kind: mWrite, term: name, base: m, at: at, n: n, byteAt: byteAt}
	st.modified[space] = true
}
