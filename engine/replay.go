package main

// Replay of solver counterexamples against the real code: the model's inputs
// are turned into an in-package Go test injected with `go test -overlay`
// (nothing is written under /repo), run in a subprocess with a timeout and a
// memory limit; the real outputs are fed back into the contract clause, which
// is then decided by the solver on concrete values.

import (
	"bytes"
	"context"
	"encoding/hex"
	"encoding/json"
	"fmt"
	"go/types"
	"os"
	"os/exec"
	"path/filepath"
	"strconv"
	"strings"
	"time"

	"golang.org/x/tools/go/ssa"
)

type ReplayResult struct {
	Reproduced bool              `json:"reproduced"`
	How        string            `json:"how"` // panic, hang, clause-false-on-real-output, fault, not-reproduced, not-replayable
	Detail     string            `json:"detail"`
	Inputs     map[string]string `json:"inputs,omitempty"`
	GoTest     string            `json:"go_test,omitempty"`
	Output     string            `json:"output,omitempty"`
}

// parseBV turns an SMT value (#x.., #b.., (_ bvN w)) into uint64.
func parseBV(s string) (uint64, bool) {
	s = strings.TrimSpace(s)
	switch {
	case strings.HasPrefix(s, "#x"):
		v, err := strconv.ParseUint(s[2:], 16, 64)
		return v, err == nil
	case strings.HasPrefix(s, "#b"):
		v, err := strconv.ParseUint(s[2:], 2, 64)
		return v, err == nil
	case strings.HasPrefix(s, "(_ bv"):
		f := strings.Fields(strings.Trim(s, "()"))
		if len(f) >= 2 {
			v, err := strconv.ParseUint(strings.TrimPrefix(f[1], "bv"), 10, 64)
			return v, err == nil
		}
	case s == "true":
		return 1, true
	case s == "false":
		return 0, true
	}
	return 0, false
}

type concreteArg struct {
	name   string
	goType string
	decl   string // Go statements declaring the variable
	expr   string // expression to pass
	ok     bool
	why    string
	// values for re-evaluation
	leaves []uint64
	bytes  []byte // content for byte slices / strings; raw target bytes for pointers
	kind   string // "int","bool","bytes","string","ptr","recv","iface"
}

var replayImports = map[string]bool{}

func qualifier(pkg *types.Package) types.Qualifier {
	return func(p *types.Package) string {
		if p == pkg {
			return ""
		}
		replayImports[p.Path()] = true
		return p.Name()
	}
}

const replayByteCap = 64

// minimise re-solves the failing query asking for small inputs.
func minimise(workdir, hdr string, q *Query, x *Exec, timeoutS int) map[string]string {
	var extra strings.Builder
	pinned := false
	if theCatalogue != nil {
		if ent, ok := theCatalogue.Entries[x.key]; ok && len(ent.Pin) > 0 {
			// evaluate the pins in a fresh entry state (same input symbol names as the failing query)
			x2 := newExec(x.prog, x.specs, x.fn, x.con, x.tparam)
			st, argv := x2.entryState()
			mark := len(st.script)
			x2.fresh = 5000000
			env := x2.contractEnv(st, argv, snapshotMem(st))
			ok := true
			var pins []string
			for _, p := range ent.Pin {
				e, err := parseCExpr(p)
				if err != nil {
					ok = false
					break
				}
				t, err := env.evalBool(e)
				if err != nil {
					ok = false
					break
				}
				pins = append(pins, t)
			}
			if ok {
				for _, c := range st.script[mark:] {
					extra.WriteString(c + "\n")
				}
				for _, t := range pins {
					extra.WriteString("(assert " + t + ")\n")
				}
				pinned = true
			}
		}
	}
	if aliasWant {
		for _, in := range q.Inputs {
			if strings.HasSuffix(in.Desc, "#2") {
				extra.WriteString(fmt.Sprintf("(assert (bvuge %s %s))\n", in.Name, bvLit(3, 64)))
			}
		}
	}
	for _, in := range q.Inputs {
		if strings.HasSuffix(in.Desc, "#2") || strings.HasSuffix(in.Desc, "#3") {
			// len / cap leaves of slices and strings (position 2, 3 of a flattened slice)
			extra.WriteString(fmt.Sprintf("(assert (bvule %s %s))\n", in.Name, bvLit(replayByteCap, 64)))
		}
	}
	// prefer a counterexample in the first iteration of every cut loop (such a state is reachable)
	var first strings.Builder
	for _, li := range q.LoopInits {
		first.WriteString("(assert (= " + li[0] + " " + li[1] + "))\n")
	}
	if len(q.LoopInits) > 0 {
		script := q.Script
		if i := strings.LastIndex(script, "(assert (not "); i >= 0 {
			script = script[:i] + extra.String() + first.String() + script[i:]
		}
		q1 := &Query{Script: script, Inputs: q.Inputs, Expect: "unsat"}
		ans := solveQuery(workdir, 700000+int(time.Now().UnixNano()%90000), hdr, q1, timeoutS, false)
		decide(q1, ans)
		if os.Getenv("PLENCVC_DEBUG") != "" {
			fmt.Fprintf(os.Stderr, "minimise first-iteration query: %s (%d loop inits) %s\n", q1.Result, len(q.LoopInits), firstLines(q1.Output, 3))
		}
		if q1.Result == "sat" && q1.Model != nil {
			return q1.Model
		}
	}
	// the extra assertions must precede the negated goal (the last command of the script)
	script := q.Script
	if i := strings.LastIndex(script, "(assert (not "); i >= 0 {
		script = script[:i] + extra.String() + script[i:]
	} else {
		script += extra.String()
	}
	q2 := &Query{Script: script, Inputs: q.Inputs, Expect: "unsat"}
	ans := solveQuery(workdir, 900000+int(time.Now().UnixNano()%90000), hdr, q2, timeoutS, false)
	decide(q2, ans)
	if q2.Result == "sat" && q2.Model != nil {
		return q2.Model
	}
	_ = pinned
	return q.Model
}

// buildArgs turns the model into Go arguments for fn.
func buildArgs(fn *ssa.Function, model map[string]string, pkg *types.Package) ([]concreteArg, string) {
	var args []concreteArg
	replayImports = map[string]bool{}
	qual := qualifier(pkg)
	for i, p := range fn.Params {
		name := p.Name()
		if name == "" || name == "_" {
			name = fmt.Sprintf("p%d", i)
		}
		a := concreteArg{name: name, goType: types.TypeString(p.Type(), qual), ok: true}
		leaf := func(k int) (uint64, bool) {
			v, ok := model[fmt.Sprintf("%s#%d", name, k)]
			if !ok {
				return 0, false
			}
			return parseBV(v)
		}
		content := func(n uint64, prefix string) []byte {
			out := make([]byte, n)
			for k := uint64(0); k < n && k < replayByteCap; k++ {
				if v, ok := model[fmt.Sprintf("%s%s[%d]", prefix, name, k)]; ok {
					b, _ := parseBV(v)
					out[k] = byte(b)
				}
			}
			return out
		}
		isRecv := i == 0 && fn.Signature.Recv() != nil
		switch u := p.Type().Underlying().(type) {
		case *types.Basic:
			switch {
			case u.Kind() == types.Bool:
				v, _ := leaf(1)
				a.kind = "bool"
				a.leaves = []uint64{v}
				a.expr = strconv.FormatBool(v != 0)
			case u.Kind() == types.String:
				ln, _ := leaf(2)
				if ln > replayByteCap {
					a.ok, a.why = false, fmt.Sprintf("model string %s too long (%d)", name, ln)
					break
				}
				a.kind = "string"
				a.bytes = content(ln, "")
				p1, _ := leaf(1)
				a.leaves = []uint64{p1, ln}
				a.expr = fmt.Sprintf("%s(%q)", a.goType, string(a.bytes))
			case u.Kind() == types.UnsafePointer:
				a.kind = "ptr"
				a.bytes = content(32, "*")
				p1, _ := leaf(1)
				a.leaves = []uint64{p1}
				a.decl = fmt.Sprintf("%s_buf := new([64]byte)\n\tcopy(%s_buf[:], %s)\n", name, name, goBytes(a.bytes))
				a.expr = fmt.Sprintf("pvunsafe.Pointer(%s_buf)", name)
			case u.Info()&types.IsInteger != 0:
				v, _ := leaf(1)
				a.kind = "int"
				a.leaves = []uint64{v}
				w, signed, _ := basicInfo(u)
				if signed {
					sh := uint(64 - w)
					a.expr = fmt.Sprintf("%s(%d)", a.goType, int64(v<<sh)>>sh)
				} else {
					a.expr = fmt.Sprintf("%s(%d)", a.goType, v)
				}
			case u.Info()&types.IsFloat != 0:
				v, _ := leaf(1)
				a.kind = "int"
				a.leaves = []uint64{v}
				if u.Kind() == types.Float32 {
					a.expr = fmt.Sprintf("%s(pvmath.Float32frombits(%d))", a.goType, uint32(v))
				} else {
					a.expr = fmt.Sprintf("%s(pvmath.Float64frombits(%d))", a.goType, v)
				}
			default:
				a.ok, a.why = false, "unsupported basic parameter type "+a.goType
			}
		case *types.Slice:
			if !isByte(u.Elem()) {
				a.ok, a.why = false, "unsupported slice parameter type "+a.goType
				break
			}
			p1, _ := leaf(1)
			ln, _ := leaf(2)
			cp, _ := leaf(3)
			if ln > replayByteCap || cp > 4*replayByteCap {
				a.ok, a.why = false, fmt.Sprintf("model slice %s too large (len %d cap %d)", name, ln, cp)
				break
			}
			a.kind = "bytes"
			a.bytes = content(ln, "")
			a.leaves = []uint64{p1, ln, cp}
			if p1 == 0 {
				a.expr = fmt.Sprintf("%s(nil)", a.goType)
			} else {
				a.decl = fmt.Sprintf("%s_arg := make([]byte, %d, %d)\n\tcopy(%s_arg, %s)\n", name, ln, cp, name, goBytes(a.bytes))
				a.expr = fmt.Sprintf("%s(%s_arg)", a.goType, name)
			}
		case *types.Struct:
			if u.NumFields() == 0 || isRecv && allEmbeddedEmpty(u) {
				a.kind = "recv"
				a.expr = a.goType + "{}"
			} else {
				a.ok, a.why = false, "unsupported struct parameter type "+a.goType
			}
		default:
			a.ok, a.why = false, "unsupported parameter type "+a.goType
		}
		if !a.ok {
			return nil, a.why
		}
		args = append(args, a)
	}
	return args, ""
}

func allEmbeddedEmpty(s *types.Struct) bool {
	for i := 0; i < s.NumFields(); i++ {
		f := s.Field(i)
		st, ok := f.Type().Underlying().(*types.Struct)
		if !ok || !f.Embedded() || !(st.NumFields() == 0 || allEmbeddedEmpty(st)) {
			return false
		}
	}
	return true
}

func goBytes(b []byte) string {
	var sb strings.Builder
	sb.WriteString("[]byte{")
	for i, c := range b {
		if i > 0 {
			sb.WriteString(", ")
		}
		sb.WriteString(fmt.Sprintf("0x%02x", c))
	}
	sb.WriteString("}")
	return sb.String()
}

// replayPackage decides in which /repo package the test is injected and how fn is called from it.
func replayPackage(ld *Loaded, fn *ssa.Function) (dir string, pkg *types.Package, callee string, imports []string, ok bool) {
	var tp *types.Package
	if fn.Pkg != nil {
		tp = fn.Pkg.Pkg
	} else if o := fn.Origin(); o != nil && o.Pkg != nil {
		tp = o.Pkg.Pkg
	} else if fn.Object() != nil {
		tp = fn.Object().Pkg()
	}
	if tp == nil && fn.Signature.Recv() != nil {
		rt := fn.Signature.Recv().Type()
		if p, ok := rt.(*types.Pointer); ok {
			rt = p.Elem()
		}
		if n, ok := rt.(*types.Named); ok {
			tp = n.Obj().Pkg()
		}
	}
	if tp != nil && strings.HasPrefix(tp.Path(), modPrefix) {
		rel := strings.TrimPrefix(strings.TrimPrefix(tp.Path(), modPrefix), "/")
		name := fn.Name()
		if fn.Signature.Recv() != nil {
			return filepath.Join("/repo", rel), tp, "", nil, true
		}
		if i := strings.Index(name, "["); i >= 0 {
			name = fnKey(fn)[strings.LastIndex(fnKey(fn), ".")+1:]
		}
		return filepath.Join("/repo", rel), tp, name, nil, true
	}
	if tp != nil && fn.Signature.Recv() == nil {
		// external function (encoding/binary.Uvarint): call it from plenccore
		for _, p := range ld.pkgs {
			if p.PkgPath == modPrefix+"/plenccore" {
				return "/repo/plenccore", p.Types, tp.Name() + "." + fn.Name(), []string{tp.Path()}, true
			}
		}
	}
	return "", nil, "", nil, false
}

type realOutput struct {
	Panic   string            `json:"panic"`
	Results []string          `json:"results"` // one per flattened result: decimal ints, "nil"/"err", hex:.. for bytes
	Post    map[string]string `json:"post"`
}

// runReplay generates and runs the test. It returns the real outputs.
var aliasProbe, aliasWant bool

func runReplay(ld *Loaded, fn *ssa.Function, args []concreteArg, workdir string, repo string) (out *realOutput, goTest string, raw string, status string) {
	dir, pkg, callee, imports, ok := replayPackage(ld, fn)
	if !ok {
		return nil, "", "", "not-replayable: cannot call " + fnKey(fn) + " from a test"
	}
	dir = filepath.Join(repo, strings.TrimPrefix(dir, "/repo"))
	var b strings.Builder
	b.WriteString("package " + pkg.Name() + "\n\nimport (\n\tpvhex \"encoding/hex\"\n\tpvjson \"encoding/json\"\n\tpvfmt \"fmt\"\n\tpvmath \"math\"\n\t\"testing\"\n\tpvunsafe \"unsafe\"\n")
	for im := range replayImports {
		dup := false
		for _, e := range imports {
			dup = dup || e == im
		}
		if !dup && im != "unsafe" {
			imports = append(imports, im)
		}
	}
	for _, im := range imports {
		b.WriteString(fmt.Sprintf("\t%q\n", im))
	}
	b.WriteString(")\n\nvar _ = pvmath.Float64bits\nvar _ = pvhex.EncodeToString\nvar _ pvunsafe.Pointer\n\n")
	b.WriteString("func TestPlencvcReplay(t *testing.T) {\n")
	b.WriteString("\ttype outT struct {\n\t\tPanic string `json:\"panic\"`\n\t\tResults []string `json:\"results\"`\n\t\tPost map[string]string `json:\"post\"`\n\t}\n\tvar out outT\n\tout.Post = map[string]string{}\n")
	b.WriteString("\temit := func() { j, _ := pvjson.Marshal(out); pvfmt.Println(\"REPLAY-JSON: \" + string(j)) }\n")
	var exprs []string
	for _, a := range args {
		b.WriteString("\t" + a.decl)
		if a.decl != "" && !strings.HasSuffix(a.decl, "\n") {
			b.WriteString("\n")
		}
	}
	start := 0
	call := callee
	if fn.Signature.Recv() != nil {
		mname := fn.Name()
		if k := strings.Index(mname, "["); k >= 0 {
			mname = mname[:k]
		}
		call = "(" + args[0].expr + ")." + mname
		start = 1
	}
	for _, a := range args[start:] {
		exprs = append(exprs, a.expr)
	}
	b.WriteString("\tfunc() {\n\t\tdefer func() {\n\t\t\tif r := recover(); r != nil {\n\t\t\t\tout.Panic = pvfmt.Sprint(r)\n\t\t\t}\n\t\t}()\n")
	nres := fn.Signature.Results().Len()
	var rv []string
	for i := 0; i < nres; i++ {
		rv = append(rv, fmt.Sprintf("r%d", i))
	}
	if nres > 0 {
		b.WriteString("\t\t" + strings.Join(rv, ", ") + " := " + call + "(" + strings.Join(exprs, ", ") + ")\n")
	} else {
		b.WriteString("\t\t" + call + "(" + strings.Join(exprs, ", ") + ")\n")
	}
	for i := 0; i < nres; i++ {
		rt := fn.Signature.Results().At(i).Type()
		switch u := rt.Underlying().(type) {
		case *types.Basic:
			switch {
			case u.Kind() == types.String:
				b.WriteString(fmt.Sprintf("\t\tout.Results = append(out.Results, \"hex:\"+pvhex.EncodeToString([]byte(r%d)))\n", i))
			case u.Kind() == types.Bool:
				b.WriteString(fmt.Sprintf("\t\tout.Results = append(out.Results, pvfmt.Sprint(r%d))\n", i))
			case u.Info()&types.IsFloat != 0 && u.Kind() == types.Float32:
				b.WriteString(fmt.Sprintf("\t\tout.Results = append(out.Results, pvfmt.Sprint(pvmath.Float32bits(float32(r%d))))\n", i))
			case u.Info()&types.IsFloat != 0:
				b.WriteString(fmt.Sprintf("\t\tout.Results = append(out.Results, pvfmt.Sprint(pvmath.Float64bits(float64(r%d))))\n", i))
			case u.Kind() == types.UnsafePointer:
				b.WriteString(fmt.Sprintf("\t\tout.Results = append(out.Results, pvfmt.Sprint(uintptr(r%d)))\n", i))
			default:
				b.WriteString(fmt.Sprintf("\t\tout.Results = append(out.Results, pvfmt.Sprint(uint64(r%d)))\n", i))
			}
		case *types.Slice:
			if isByte(u.Elem()) {
				b.WriteString(fmt.Sprintf("\t\tif r%d == nil { out.Results = append(out.Results, \"nilslice\") } else { out.Results = append(out.Results, pvfmt.Sprintf(\"hex:%%s:%%d\", pvhex.EncodeToString(r%d), cap(r%d))) }\n", i, i, i))
			} else {
				b.WriteString(fmt.Sprintf("\t\t_ = r%d\n\t\tout.Results = append(out.Results, \"?\")\n", i))
			}
		case *types.Interface:
			b.WriteString(fmt.Sprintf("\t\tif r%d == nil { out.Results = append(out.Results, \"nil\") } else { out.Results = append(out.Results, \"nonnil\") }\n", i))
		default:
			b.WriteString(fmt.Sprintf("\t\t_ = r%d\n\t\tout.Results = append(out.Results, \"?\")\n", i))
		}
	}
	b.WriteString("\t}()\n")
	if aliasProbe {
		// aliasing scenario: read the decoded bytes, scribble over every input buffer, read them again
		for _, a := range args {
			if a.kind == "ptr" {
				b.WriteString(fmt.Sprintf("\tprobe := func() string { h := *(*struct{ p pvunsafe.Pointer; n int })(pvunsafe.Pointer(%s_buf)); if h.p == nil || h.n <= 0 || h.n > 4096 { return \"\" }; return pvhex.EncodeToString(pvunsafe.Slice((*byte)(h.p), h.n)) }\n", a.name))
				b.WriteString("\tout.Post[\"alias.before\"] = probe()\n")
				for _, d := range args {
					if d.kind == "bytes" && d.decl != "" {
						b.WriteString(fmt.Sprintf("\tfor i := range %s_arg { %s_arg[i] ^= 0xff }\n", d.name, d.name))
					}
				}
				b.WriteString("\tout.Post[\"alias.after\"] = probe()\n")
				break
			}
		}
	}
	for _, a := range args {
		switch a.kind {
		case "ptr":
			b.WriteString(fmt.Sprintf("\tout.Post[%q] = pvhex.EncodeToString(%s_buf[:])\n", "*"+a.name, a.name))
		case "bytes":
			if a.decl != "" {
				b.WriteString(fmt.Sprintf("\tout.Post[%q] = pvhex.EncodeToString(%s_arg)\n", a.name, a.name))
			}
		}
	}
	b.WriteString("\temit()\n}\n")
	goTest = b.String()
	testFile := filepath.Join(workdir, "plencvc_replay_test.go")
	os.WriteFile(testFile, []byte(goTest), 0o644)
	ov := map[string]map[string]string{"Replace": {filepath.Join(dir, "plencvc_replay_test.go"): testFile}}
	ovb, _ := json.Marshal(ov)
	ovFile := filepath.Join(workdir, "overlay.json")
	os.WriteFile(ovFile, ovb, 0o644)
	ctx, cancel := context.WithTimeout(context.Background(), 120*time.Second)
	defer cancel()
	sh := fmt.Sprintf("ulimit -v 8000000; cd %s && exec go test -overlay %s -vet=off -count=1 -v -timeout 20s -run '^TestPlencvcReplay$' .", dir, ovFile)
	cmd := exec.CommandContext(ctx, "sh", "-c", sh)
	cmd.Env = append(os.Environ(), "GOFLAGS=-mod=mod", "GOPROXY=off", "GOSUMDB=off", "GOTOOLCHAIN=local")
	var ob bytes.Buffer
	cmd.Stdout = &ob
	cmd.Stderr = &ob
	err := cmd.Run()
	raw = ob.String()
	if i := strings.Index(raw, "REPLAY-JSON: "); i >= 0 {
		line := raw[i+len("REPLAY-JSON: "):]
		if j := strings.Index(line, "\n"); j >= 0 {
			line = line[:j]
		}
		var ro realOutput
		if json.Unmarshal([]byte(line), &ro) == nil {
			return &ro, goTest, raw, "ran"
		}
	}
	switch {
	case strings.Contains(raw, "panic: test timed out") || ctx.Err() != nil:
		return nil, goTest, raw, "hang"
	case strings.Contains(raw, "fatal error:") || strings.Contains(raw, "unexpected fault address") || strings.Contains(raw, "out of memory"):
		return nil, goTest, raw, "fault"
	case strings.Contains(raw, "panic:"):
		return nil, goTest, raw, "panic"
	}
	if err != nil {
		return nil, goTest, raw, "build-or-run-error"
	}
	return nil, goTest, raw, "no-output"
}

// replayObligation replays the first failing query of o.
func replayObligation(ld *Loaded, specs *Specs, x *Exec, o *Obligation, q *Query, workroot, repo string, timeoutS int) *ReplayResult {
	res := &ReplayResult{}
	if q == nil || q.Model == nil {
		res.How = "not-replayable"
		res.Detail = "the solver gave no model (" + func() string {
			if q != nil {
				return q.Result
			}
			return o.GenFail
		}() + ")"
		return res
	}
	workdir, _ := os.MkdirTemp(workroot, "replay")
	defer os.RemoveAll(workdir)
	hdr := header(specs, x)
	aliasWant = o.Kind == "alias"
	model := minimise(workdir, hdr, q, x, timeoutS)
	aliasWant = false
	res.Inputs = map[string]string{}
	for k, v := range model {
		if !strings.Contains(k, "[") {
			res.Inputs[k] = v
		}
	}
	var pkg *types.Package
	if _, p, _, _, ok := replayPackage(ld, x.fn); ok {
		pkg = p
	}
	args, why := buildArgs(x.fn, model, pkg)
	if args == nil {
		// not callable directly: try the witness catalogue with the model's data bytes
		if data, ok := modelBytes(x.fn, model, "data"); ok {
			cr := catalogueReplay(x.key, data, workdir, repo)
			if cr.Inputs == nil {
				cr.Inputs = map[string]string{}
			}
			for k, v := range res.Inputs {
				cr.Inputs["model:"+k] = v
			}
			if cr.How == "not-replayable" {
				cr.Detail = why + "; " + cr.Detail
			}
			return cr
		}
		res.How = "not-replayable"
		res.Detail = why
		return res
	}
	for _, a := range args {
		if a.kind == "bytes" || a.kind == "string" {
			res.Inputs[a.name] = "hex:" + hex.EncodeToString(a.bytes)
		}
	}
	aliasProbe = o.Kind == "alias"
	out, goTest, raw, status := runReplay(ld, x.fn, args, workdir, repo)
	aliasProbe = false
	res.GoTest = goTest
	res.Output = tail(raw, 2000)
	switch status {
	case "hang":
		res.Reproduced = true
		res.How = "hang"
		res.Detail = "the real function did not return within the test timeout"
		return res
	case "fault", "panic":
		res.Reproduced = true
		res.How = status
		res.Detail = firstMatch(raw, "panic:", "fatal error:")
		return res
	case "ran":
	default:
		res.How = "not-replayable"
		res.Detail = status
		return res
	}
	if out.Panic != "" {
		res.Reproduced = true
		res.How = "panic"
		res.Detail = out.Panic
		return res
	}
	switch {
	case strings.Contains(o.Text, "wf") && strings.Contains(o.Text, "()"):
		res.How = "not-reproduced"
		res.Detail = "clause is stated under a ghost hypothesis and cannot be evaluated on a concrete output"
		return res
	}
	switch o.Kind {
	case "alias":
		bf, af := out.Post["alias.before"], out.Post["alias.after"]
		if bf != "" && bf != af {
			res.Reproduced = true
			res.How = "decoded-value-changed-when-input-was-overwritten"
			res.Detail = fmt.Sprintf("decoded bytes %s became %s after the input buffer was overwritten", bf, af)
		} else {
			res.How = "not-reproduced"
			res.Detail = fmt.Sprintf("decoded bytes before/after overwriting the input: %q / %q", bf, af)
		}
		return res
	case "ensures", "appends":
		violated, detail := evalOnReal(specs, x, o, args, out, workdir, timeoutS)
		res.Detail = detail
		if violated {
			res.Reproduced = true
			res.How = "clause-false-on-real-output"
		} else {
			res.How = "not-reproduced"
		}
	default:
		res.How = "not-reproduced"
		res.Detail = fmt.Sprintf("real run returned %v without panic", out.Results)
	}
	return res
}

func tail(s string, n int) string {
	if len(s) > n {
		return s[len(s)-n:]
	}
	return s
}

func firstMatch(s string, keys ...string) string {
	for _, ln := range strings.Split(s, "\n") {
		for _, k := range keys {
			if strings.Contains(ln, k) {
				return strings.TrimSpace(ln)
			}
		}
	}
	return ""
}

// evalOnReal decides the obligation's clause on the concrete inputs and the
// real outputs: the clause is translated as usual, every input and output
// symbol is pinned to its concrete value, and the solver is asked whether the
// negated clause is satisfiable (it is exactly when the real code violates it).
func evalOnReal(specs *Specs, x0 *Exec, o *Obligation, args []concreteArg, out *realOutput, workdir string, timeoutS int) (bool, string) {
	x := newExec(x0.prog, specs, x0.fn, x0.con, x0.tparam)
	st, argv := x.entryState()
	entryMem := snapshotMem(st)
	// pin inputs
	for i, a := range args {
		var ls []V
		leaves(argv[i], &ls)
		for k, l := range ls {
			if k < len(a.leaves) && l.K != KBool {
				if (a.kind == "bytes" || a.kind == "string" || a.kind == "ptr") && k == 0 && a.leaves[0] != 0 {
					continue // keep pointers symbolic (non-nil)
				}
				st.assume(eq(l.T, bvLit(a.leaves[k], l.W)))
			} else if k < len(a.leaves) {
				st.assume(eq(l.T, strconv.FormatBool(a.leaves[k] != 0)))
			}
		}
		switch a.kind {
		case "bytes", "string":
			p := argv[i].Fs[0]
			if a.leaves[0] != 0 || a.kind == "string" {
				st.assume(not(eq(p.T, bvLit(0, 64))))
			}
			arr := st.mem[p.Prov.Space].term
			for k, c := range a.bytes {
				st.assume(eq(app("select", arr, bvadd(p.T, bvLit(uint64(k), 64))), bvLit(uint64(c), 8)))
			}
		case "ptr":
			p := argv[i]
			for k, c := range a.bytes {
				st.assume(eq(app("select", "H0", bvadd(p.T, bvLit(uint64(k), 64))), bvLit(uint64(c), 8)))
			}
		}
	}
	// post memory of pointer targets
	st.havoc("H", nil)
	for i, a := range args {
		if a.kind == "ptr" {
			if hx, ok := out.Post["*"+a.name]; ok {
				pb, _ := hex.DecodeString(hx)
				for k, c := range pb {
					if k >= 32 {
						break
					}
					st.assume(eq(app("select", st.mem["H"].term, bvadd(argv[i].T, bvLit(uint64(k), 64))), bvLit(uint64(c), 8)))
				}
			}
		}
	}
	// results
	sig := x.fn.Signature
	var results []V
	for i := 0; i < sig.Results().Len(); i++ {
		rt := sig.Results().At(i).Type()
		rv := st.symbolic(rt, fmt.Sprintf("real_r%d", i), func(ls leafShape) *Prov {
			if ls.ByteElem {
				return &Prov{Space: fmt.Sprintf("B:real%d", i), Region: "real"}
			}
			return &Prov{Space: "H", Region: "real"}
		}, false)
		if i < len(out.Results) {
			r := out.Results[i]
			switch {
			case r == "nil":
				st.assume(eq(rv.Fs[0].T, bvLit(0, 64)))
			case r == "nonnil":
				st.assume(not(eq(rv.Fs[0].T, bvLit(0, 64))))
			case r == "nilslice":
				st.assume(and(eq(rv.Fs[0].T, bvLit(0, 64)), eq(rv.Fs[1].T, bvLit(0, 64)), eq(rv.Fs[2].T, bvLit(0, 64))))
			case strings.HasPrefix(r, "hex:"):
				parts := strings.Split(r[4:], ":")
				bs, _ := hex.DecodeString(parts[0])
				st.assume(not(eq(rv.Fs[0].T, bvLit(0, 64))))
				st.assume(eq(rv.Fs[1].T, bvLit(uint64(len(bs)), 64)))
				if len(parts) > 1 && len(rv.Fs) == 3 {
					c, _ := strconv.ParseUint(parts[1], 10, 64)
					st.assume(eq(rv.Fs[2].T, bvLit(c, 64)))
				}
				arr := st.mem[rv.Fs[0].Prov.Space].term
				for k, c := range bs {
					st.assume(eq(app("select", arr, bvadd(rv.Fs[0].T, bvLit(uint64(k), 64))), bvLit(uint64(c), 8)))
				}
			case r == "true" || r == "false":
				st.assume(eq(rv.T, r))
			case r == "?":
			default:
				u, err := strconv.ParseUint(r, 10, 64)
				if err == nil && (rv.K == KBV || rv.K == KPtr) {
					st.assume(eq(rv.T, bvLit(u, rv.W)))
				}
			}
		}
		results = append(results, rv)
	}
	env := x.contractEnv(st, argv, entryMem)
	for i, n := range resultNames(sig) {
		env.vars[n] = results[i]
	}
	if len(results) == 1 {
		env.vars["result"] = results[0]
	}
	env.prove = true
	before := len(x.order)
	switch o.Kind {
	case "ensures":
		for i, en := range x.con.Ensures {
			if fmt.Sprintf("%s#ensures%d", x.key, i+1) == o.Name {
				t, err := env.evalBool(en.Expr)
				if err != nil {
					return false, err.Error()
				}
				x.oblige(st, o.Name, "ensures", nil, t, "", en.Text)
			}
		}
	case "appends":
		x.proveAppends(st, env, x.con, results[0])
	}
	var target *Obligation
	for _, n := range x.order[before:] {
		if n == o.Name {
			target = x.obls[n]
		}
	}
	if target == nil {
		if ob, ok := x.obls[o.Name]; ok {
			target = ob
		}
	}
	if target == nil || len(target.Queries) == 0 {
		if target != nil && target.Trivial > 0 {
			return false, "clause holds trivially on the real output"
		}
		return false, "clause could not be re-evaluated on the real output"
	}
	q := target.Queries[0]
	q.Inputs = nil
	ans := solveQuery(workdir, 800000, header(specs, x), q, timeoutS, false)
	decide(q, ans)
	switch q.Result {
	case "sat":
		return true, fmt.Sprintf("clause %q is false on the real output %v", o.Text, out.Results)
	case "unsat":
		return false, fmt.Sprintf("clause holds on the real output %v", out.Results)
	}
	return false, "re-evaluation undecided: " + q.Result
}

// modelBytes extracts the contents of a []byte parameter from the model.
func modelBytes(fn *ssa.Function, model map[string]string, name string) ([]byte, bool) {
	lv, ok := model[name+"#2"]
	if !ok {
		return nil, false
	}
	n, ok := parseBV(lv)
	if !ok || n > replayByteCap {
		return nil, false
	}
	out := make([]byte, n)
	for k := uint64(0); k < n; k++ {
		if v, ok := model[fmt.Sprintf("%s[%d]", name, k)]; ok {
			b, _ := parseBV(v)
			out[k] = byte(b)
		}
	}
	return out, true
}
