package main

import (
	"fmt"
	"go/types"
	"math"
	"strings"

	"golang.org/x/tools/go/ssa"
)

func mathFloat64bits(f float64) uint64 { return math.Float64bits(f) }
func mathFloat32bits(f float32) uint32 { return math.Float32bits(f) }

func (x *Exec) doCall(st *State, cc *ssa.CallCommon, site ssa.Instruction, val ssa.Value) []Outcome {
	var args []V
	for _, a := range cc.Args {
		args = append(args, st.operand(a))
	}
	fnv := st.operand(cc.Value)
	return x.doCallVals(st, cc, fnv, args, site)
}

// doCallVals performs a call with evaluated operands. For invoke-mode calls
// fnv is the interface value.
func (x *Exec) doCallVals(st *State, cc *ssa.CallCommon, fnv V, args []V, site ssa.Instruction) []Outcome {
	fr := st.top()
	if cc.IsInvoke() {
		recvT := cc.Value.Type()
		key := ifaceKey(recvT, cc.Method.Name())
		con := x.specs.Contracts[key]
		sig := cc.Method.Type().(*types.Signature)
		names := append([]string{"self"}, paramNames(sig)...)
		all := append([]V{fnv}, args...)
		x.atCall(st, fr, key, all, site) // arg0 is the interface value, arg1.. the arguments
		if con == nil {
			x.warn("no contract for interface method %s: results and heap havocked", key)
			con = &Contract{Func: key, Assigns: []string{"H"}, AssignsSet: true}
		}
		return []Outcome{x.applyContract(st, fr, con, key, names, all, sig, site, nil)}
	}
	if fnv.K != KFunc {
		// a function value that is not statically known: results unconstrained, heap havocked
		x.warn("call of a function value that is not statically known in %s: results and heap havocked", fnKey(fr.fn))
		sig := cc.Value.Type().Underlying().(*types.Signature)
		con := &Contract{Func: "funcvalue", Assigns: []string{"H", "B+"}, AssignsSet: true, Trusted: true}
		return []Outcome{x.applyContract(st, fr, con, "funcvalue", paramNames(sig), args, sig, site, nil)}
	}
	cl := fnv.Fn
	if cl.builtin != "" {
		return []Outcome{{st: st, results: []V{x.builtin(st, fr, cl.builtin, cc, args, site)}}}
	}
	callee := cl.fn
	key := fnKey(callee)
	x.atCall(st, fr, key, args, site)
	con, tp := x.contractFor(callee)
	// bound method closures and synthetic wrappers are always inlined
	synthetic := callee.Synthetic != ""
	if con != nil && !con.Inline && !synthetic {
		names := declParamNames(callee)
		return []Outcome{x.applyContract(st, fr, con, key, names, args, callee.Signature, site, tp)}
	}
	inRepo := callee.Pkg != nil && strings.HasPrefix(callee.Pkg.Pkg.Path(), modPrefix)
	if !inRepo && callee.Synthetic != "" && (callee.Name() == "init" || strings.HasPrefix(callee.Name(), "init#")) {
		// package initialisers of dependencies do not touch plenc's state
		x.noteAssumption("package initialisers of dependencies (" + key + ") do not modify modelled memory")
		return []Outcome{{st: st, results: nil}}
	}
	if (inRepo || synthetic || (con != nil && con.Inline) || callee.Parent() != nil) && len(callee.Blocks) > 0 && !x.onStack(st, callee) {
		return x.runFunc(st, callee, args, cl.bindings)
	}
	if con == nil {
		// conservative frame: the heap (outside codec metadata) and fresh byte memory may change
		x.warn("no contract for external function %s: results and non-metadata heap havocked", key)
		x.noteAssumption("external function " + key + " has no contract: result unconstrained; it may modify any non-metadata heap, not the bytes of existing buffers")
		con = &Contract{Func: key, Trusted: true}
	}
	names := declParamNames(callee)
	return []Outcome{x.applyContract(st, fr, con, key, names, args, callee.Signature, site, tp)}
}

// mentionsCallRecords reports whether a clause names the call records of the function it belongs to.
func mentionsCallRecords(e *CExpr) bool {
	if e == nil {
		return false
	}
	if e.Op == "ident" && (strings.HasPrefix(e.Tok, "called_") || strings.HasPrefix(e.Tok, "call_") || strings.HasPrefix(e.Tok, "loopdone_") || strings.HasPrefix(e.Tok, "exit_")) {
		return true
	}
	for _, a := range e.Args {
		if mentionsCallRecords(a) {
			return true
		}
	}
	return false
}

// callCovers: emit a satisfiability query behind every contract call (thorough tier, dump -covers).
var callCovers = false

// shortCallName: plenccore.Skip -> Skip, plenccodec.Codec.Read -> Codec_Read,
// plenccodec.IntCodec[T].Read -> IntCodec_Read (the names usable in loop step clauses).
func shortCallName(key string) string {
	if i := strings.LastIndex(key, "/"); i >= 0 {
		key = key[i+1:]
	}
	if i := strings.Index(key, "."); i >= 0 {
		key = key[i+1:]
	}
	var b strings.Builder
	depth := 0
	for _, c := range key {
		switch {
		case c == '[':
			depth++
		case c == ']':
			depth--
		case depth > 0 || c == '*':
		case c == '.':
			b.WriteByte('_')
		default:
			b.WriteRune(c)
		}
	}
	return b.String()
}

func (x *Exec) onStack(st *State, fn *ssa.Function) bool {
	for _, f := range st.frames {
		if f.fn == fn {
			return true
		}
	}
	return false
}

func ifaceKey(t types.Type, method string) string {
	if n, ok := t.(*types.Named); ok {
		pkg := ""
		if n.Obj().Pkg() != nil {
			pkg = shortPkg(n.Obj().Pkg().Path()) + "."
		}
		return pkg + n.Obj().Name() + "." + method
	}
	return "iface." + method
}

func paramNames(sig *types.Signature) []string {
	var out []string
	for i := 0; i < sig.Params().Len(); i++ {
		n := sig.Params().At(i).Name()
		if n == "" || n == "_" {
			n = fmt.Sprintf("p%d", i)
		}
		out = append(out, n)
	}
	return out
}

// declParamNames lists receiver (if any) and parameter names as declared.
func declParamNames(fn *ssa.Function) []string {
	var out []string
	if len(fn.Params) > 0 {
		for i, p := range fn.Params {
			n := p.Name()
			if n == "" || n == "_" {
				n = fmt.Sprintf("p%d", i)
			}
			out = append(out, n)
		}
		return out
	}
	sig := fn.Signature
	if sig.Recv() != nil {
		n := sig.Recv().Name()
		if n == "" || n == "_" {
			n = "self"
		}
		out = append(out, n)
	}
	return append(out, paramNames(sig)...)
}

func resultNames(sig *types.Signature) []string {
	var out []string
	n := sig.Results().Len()
	for i := 0; i < n; i++ {
		nm := sig.Results().At(i).Name()
		if nm == "" || nm == "_" {
			if n == 1 {
				nm = "result"
			} else {
				nm = fmt.Sprintf("r%d", i)
			}
		}
		out = append(out, nm)
	}
	return out
}

func (x *Exec) bindParams(vars map[string]V, fn *ssa.Function, args []V) {
	names := declParamNames(fn)
	for i, n := range names {
		if i < len(args) {
			vars[n] = args[i]
		}
	}
	if fn.Signature.Recv() != nil && len(args) > 0 {
		vars["self"] = args[0]
	}
}

func snapshotMem(st *State) map[string]*MemVer {
	m := make(map[string]*MemVer, len(st.mem))
	for k, v := range st.mem {
		m[k] = v
	}
	return m
}

// applyContract uses a callee's contract at a call site: requires are
// obligations, the frame is havocked, ensures are assumed.
func (x *Exec) applyContract(st *State, fr *Frame, con *Contract, key string, names []string, args []V, sig *types.Signature, site ssa.Instruction, tp map[string]types.Type) Outcome {
	if con.Trusted {
		x.noteAssumption("trusted contract of " + key)
	}
	vars := map[string]V{}
	for i, n := range names {
		if i < len(args) {
			vars[n] = args[i]
		}
	}
	if sig.Recv() != nil && len(args) > 0 {
		vars["self"] = args[0]
	}
	// pointer arguments carry their static type, so that clauses can name the fields behind them
	for i, n := range names {
		if i >= len(args) {
			continue
		}
		var pt types.Type
		if sig.Recv() != nil {
			if i == 0 {
				pt = sig.Recv().Type()
			} else if i-1 < sig.Params().Len() {
				pt = sig.Params().At(i - 1).Type()
			}
		} else if i < sig.Params().Len() {
			pt = sig.Params().At(i).Type()
		}
		if v := vars[n]; v.K == KPtr && v.Typ == nil && pt != nil {
			if _, ok := pt.Underlying().(*types.Pointer); ok {
				v.Typ = pt
				vars[n] = v
				if sig.Recv() != nil && i == 0 {
					vars["self"] = v
				}
			}
		}
	}
	if callCovers && fr != nil && fr.depth == 0 && site != nil {
		// paired with the query emitted after the contract has been assumed (see below)
		x.coverRole = "pre"
		x.cover(st, x.instrName(fr, site, "call")+".cover("+key+")", "cover", x.safetyTags(fr), x.posOf(site.Pos()), "assuming the contract of "+key+" leaves a reachable path satisfiable")
		x.coverRole = ""
	}
	pre := snapshotMem(st)
	env := &CEnv{st: st, oldMem: pre, vars: vars, tparam: tp, fn: key, prove: true}
	for i, rq := range con.Requires {
		name := x.instrName(fr, site, "call") + fmt.Sprintf(".requires%d(%s)", i+1, key)
		t, err := env.evalBool(rq.Expr)
		if err != nil {
			x.genFail(name, "requires", x.safetyTags(fr), x.posOf(site.Pos()), err.Error())
			continue
		}
		x.oblige(st, name, "requires", x.tagsOr(rq.Tags, fr), t, x.posOf(site.Pos()), "precondition of "+key+": "+rq.Text)
		st.assume(t)
	}
	// separate regions demanded by the callee: the caller must hold the same object as a region
	var sepSpaces []string
	for _, sp := range con.Separate {
		name := x.instrName(fr, site, "call") + fmt.Sprintf(".separate(%s.%s)", sp.Param, sp.Field)
		var pt types.Type
		for i, n := range names {
			if n != sp.Param || i >= len(args) {
				continue
			}
			if sig.Recv() != nil {
				if i == 0 {
					pt = sig.Recv().Type()
				} else if i-1 < sig.Params().Len() {
					pt = sig.Params().At(i - 1).Type()
				}
			} else if i < sig.Params().Len() {
				pt = sig.Params().At(i).Type()
			}
		}
		pv, ok := vars[sp.Param]
		if !ok || pt == nil {
			x.genFail(name, "requires", x.safetyTags(fr), x.posOf(site.Pos()), "separate: unknown parameter "+sp.Param)
			continue
		}
		addr, err := sepHeaderAddr(pv, pt, sp.Field)
		if err != nil {
			x.genFail(name, "requires", x.safetyTags(fr), x.posOf(site.Pos()), "separate: "+err.Error())
			continue
		}
		pr, ok := st.shadow["H@"+addr]
		if !ok || !strings.HasPrefix(pr.Space, "H:sep") {
			x.genFail(name, "requires", x.safetyTags(fr), x.posOf(site.Pos()), "the caller does not hold "+sp.Param+"."+sp.Field+" as a separate object (needs its own 'separate' precondition)")
			continue
		}
		sepSpaces = append(sepSpaces, pr.Space)
	}
	for _, nc := range con.NeedsClean {
		if pv, ok := vars[nc.Callee]; ok && pv.K == KPtr {
			goal := "true"
			if st.stale[pv.T] {
				goal = "false"
			}
			x.oblige(st, x.instrName(fr, site, "call")+".clean("+key+"."+nc.Callee+")", "stale", x.tagsOr(nc.Tags, fr), goal, x.posOf(site.Pos()),
				"the memory passed as "+nc.Callee+" to "+key+" holds no contents left over from earlier use (pool / scratch buffer cleared first)")
		}
	}
	for _, cl := range con.Cleans {
		if pv, ok := vars[cl]; ok && pv.K == KPtr && st.stale != nil {
			delete(st.stale, pv.T)
		}
	}
	env.prove = false
	if con.AllocSite != nil {
		if n, err := env.evalAny(con.AllocSite.Expr); err == nil {
			n = coerce(n, 64, true)
			x.allocBound(st, fr, site, n.T)
		}
	}
	// results
	rnames := resultNames(sig)
	var results []V
	if con.Pure {
		results = x.pureResults(st, con, key, args, sig)
	} else {
		for i := 0; i < sig.Results().Len(); i++ {
			rt := sig.Results().At(i).Type()
			rv := st.symbolic(rt, "ret_"+sanitize(key), func(ls leafShape) *Prov {
				if ls.ByteElem {
					st.regions++
					return &Prov{Space: fmt.Sprintf("B:ret%d", st.regions), Region: fmt.Sprintf("ret#%d", st.regions)}
				}
				return &Prov{Space: "H", Region: "ret"}
			}, false)
			results = append(results, rv)
		}
	}
	// frame: a contract without an assigns clause is treated conservatively
	assigns := con.Assigns
	if !con.AssignsSet && !con.Pure {
		assigns = []string{"H", "B+"}
	}
	for _, sp := range assigns {
		switch sp {
		case "H":
			st.havoc("H", x.heapKeep(st))
			st.noteMod("H")
			x.noteAssumption("callee " + key + " modifies only non-metadata heap (ismeta frame)")
			for _, ss := range sepSpaces {
				// the callee's separate objects are part of the heap it may modify
				st.havoc(ss, nil)
				st.noteMod(ss)
			}
		case "H+":
			brk := st.brk["H"]
			st.havoc("H", func(a string) string { return app("bvult", a, brk) })
			x.bumpBrk(st, "H")
			st.noteMod("H+")
		case "B+":
			brk := st.brk["B"]
			st.havoc("B", func(a string) string { return app("bvult", a, brk) })
			x.bumpBrk(st, "B")
			st.noteMod("B+")
		case "B":
			st.havoc("B", nil)
			st.noteMod("B")
		default:
			// a named pointer parameter: its local space (if any) is havocked
			if v, ok := vars[sp]; ok && v.K == KPtr && v.Prov != nil {
				st.havoc(v.Prov.Space, nil)
				st.noteMod(v.Prov.Space)
			}
		}
	}
	for _, w := range con.Writes {
		pv, ok := vars[w.Ptr]
		if !ok || pv.K != KPtr {
			x.genFail(x.instrName(fr, site, "call")+".writes", "frame", x.safetyTags(fr), x.posOf(site.Pos()), "writes: unknown pointer "+w.Ptr)
			continue
		}
		n, err := env.evalAny(w.N)
		if err != nil {
			x.genFail(x.instrName(fr, site, "call")+".writes", "frame", x.safetyTags(fr), x.posOf(site.Pos()), err.Error())
			continue
		}
		n = coerce(n, 64, false)
		sp := spaceOf(pv, "H")
		fresh := st.newMemName("wr")
		st.writeSeq(sp, pv.T, n.T, func(s *State, k string) string { return app("select", fresh, bvadd(pv.T, k)) })
		st.noteMod(sp)
	}
	if con.Appends != nil {
		results[0] = x.applyAppend(st, env, con, vars, results[0])
	}
	for i, n := range rnames {
		vars[n] = results[i]
	}
	if len(results) == 1 {
		vars["result"] = results[0]
	}
	for _, f := range con.Fresh {
		if v, ok := vars[f]; ok && v.K == KPtr {
			x.bumpFresh(st, v)
		}
	}
	for _, sn := range con.Stale {
		if v, ok := vars[sn]; ok {
			var ls []V
			leaves(v, &ls)
			if st.stale == nil {
				st.stale = map[string]bool{}
			}
			for _, l := range ls {
				if l.K == KPtr {
					st.stale[l.T] = true
				}
			}
		}
	}
	for _, en := range con.Ensures {
		if en.Local && !x.usesLocals() {
			continue
		}
		if mentionsCallRecords(en.Expr) {
			// about the callee's own calls (called_<name>, call_<name>_...): proved on its body, meaningless to a caller
			continue
		}
		if err := st.assumeClause(env, en.Expr); err != nil {
			x.genFail(x.instrName(fr, site, "call")+".ensures("+key+")", "callee-contract", x.safetyTags(fr), x.posOf(site.Pos()), err.Error())
			continue
		}
	}
	// vacuity guard: the callee's contract, once assumed, must leave the path satisfiable (a contradiction
	// between a contract and the engine's own assumptions would silently prove everything behind the call)
	if callCovers && fr != nil && fr.depth == 0 && site != nil {
		// (thorough tier) one query per path reaching the call; the site is covered when any of them is satisfiable
		cname := x.instrName(fr, site, "call") + ".cover(" + key + ")"
		x.coverRole = "post"
		x.cover(st, cname, "cover", x.safetyTags(fr), x.posOf(site.Pos()), "assuming the contract of "+key+" leaves a reachable path satisfiable")
		x.coverRole = ""
	}
	if fr != nil {
		// recorded for the calling function and for every function it is inlined into (helpers and closures
		// of the function under analysis are executed in place; their calls count as its own)
		x.fresh++
		targs := append([]V(nil), args...)
		for i, n := range names {
			if i < len(targs) {
				if tv, ok := vars[n]; ok && tv.K == KPtr && tv.Typ != nil && targs[i].Typ == nil {
					targs[i] = tv // pointer arguments carry their static type (clauses name the fields behind them)
				}
			}
		}
		rec := callRec{args: targs, results: results, seq: x.fresh}
		for _, r := range x.recStack {
			if r.calls != nil {
				r.calls[shortCallName(key)] = sig
			}
		}
		for _, f := range st.frames {
			if f.lastCall == nil {
				f.lastCall = map[string]callRec{}
			}
			f.lastCall[shortCallName(key)] = rec
		}
		if st.topCalls == nil {
			st.topCalls = map[string]callRec{}
		}
		st.topCalls[shortCallName(key)] = rec
	}
	return Outcome{st: st, results: results}
}

func (x *Exec) bumpBrk(st *State, sp string) {
	old := st.brk[sp]
	nb := st.freshConst("brk"+sp, sortBV(64))
	st.assume(and(app("bvuge", nb, old), app("bvult", nb, bvLit(brkLimit, 64))))
	st.brk[sp] = nb
}

func (x *Exec) bumpFresh(st *State, v V) {
	sp := spaceOf(v, "H")
	if brk, ok := st.brk[sp]; ok {
		if bv, _, isLit := litVal(brk); isLit && bv+brkStride < brkLimit {
			// the callee's fresh object sits at the next stride
			st.assume(eq(v.T, brk))
			st.brk[sp] = bvLit(bv+brkStride, 64)
			return
		}
		st.assume(app("bvuge", v.T, brk))
		x.bumpBrk(st, sp)
		st.assume(app("bvult", v.T, st.brk[sp]))
	}
}

// pureResults builds uninterpreted results as functions of the arguments and
// the named memories.
func (x *Exec) pureResults(st *State, con *Contract, key string, args []V, sig *types.Signature) []V {
	var terms, sorts []string
	var flat func(a V)
	flat = func(a V) {
		var ls []V
		leaves(a, &ls)
		for _, l := range ls {
			if l.K == KFunc {
				continue
			}
			if l.Box != nil {
				// an interface holding a value: the function depends on the value, not on where it is boxed
				flat(*l.Box)
				continue
			}
			terms = append(terms, l.T)
			sorts = append(sorts, sortOf(l))
		}
	}
	for _, a := range args {
		flat(a)
	}
	for _, sp := range con.MemDep {
		if m := st.mem[sp]; m != nil {
			terms = append(terms, m.term)
			sorts = append(sorts, sortMem)
		}
	}
	var results []V
	for i := 0; i < sig.Results().Len(); i++ {
		rt := sig.Results().At(i).Type()
		k := 0
		rv := build(rt, func(ls leafShape) V {
			k++
			name := fmt.Sprintf("uf_%s_r%d_%d_a%d", sanitize(key), i, k, len(sorts))
			var out V
			switch ls.K {
			case KBool:
				x.declareUF(name, sorts, "Bool")
				out = vBool(app(name, terms...))
			case KPtr:
				x.declareUF(name, sorts, sortBV(64))
				out = vPtr(app(name, terms...), &Prov{Space: "H", Region: "ret"})
				if ls.ByteElem {
					out.Prov = &Prov{Space: "B", Region: "ret"}
				}
			default:
				x.declareUF(name, sorts, sortBV(ls.W))
				out = vBV(app(name, terms...), ls.W, ls.Signed)
			}
			if len(terms) == 0 {
				out.T = name
			}
			out.T = st.define("pure", sortOf(out), out.T)
			return out
		})
		st.typeInv(rv, rt)
		results = append(results, rv)
	}
	return results
}

// applyAppend models `appends <param> <seq>` on the assume side.
func (x *Exec) applyAppend(st *State, env *CEnv, con *Contract, vars map[string]V, res V) V {
	data, ok := vars[con.Appends.Param]
	if !ok {
		return res
	}
	sv, err := env.evalAny(con.Appends.Seq)
	if err != nil {
		x.warn("appends clause of %s: %v", con.Func, err)
		return res
	}
	seq := env.toSeq(sv)
	return x.appendSeqDyn(st, data, seq.Len, func(s *State, i string) string {
		saved := env.st
		env.st = s
		defer func() { env.st = saved }()
		return seq.Byte(i)
	})
}

func (x *Exec) builtin(st *State, fr *Frame, name string, cc *ssa.CallCommon, args []V, site ssa.Instruction) V {
	switch name {
	case "len":
		a := args[0]
		switch cc.Args[0].Type().Underlying().(type) {
		case *types.Map:
			return x.mapLen(st, a)
		}
		if a.K == KTuple && len(a.Fs) >= 2 {
			return a.Fs[1]
		}
		if arr, ok := cc.Args[0].Type().Underlying().(*types.Array); ok {
			return vBV(bvLit(uint64(arr.Len()), 64), 64, true)
		}
	case "cap":
		a := args[0]
		if a.K == KTuple && len(a.Fs) == 3 {
			return a.Fs[2]
		}
	case "append":
		return x.builtinAppend(st, fr, cc, args, site)
	case "copy":
		unsup("builtin copy")
	case "min", "max":
		r := args[0]
		signed := signedType(cc.Args[0].Type())
		for _, a := range args[1:] {
			op := "bvult"
			if signed {
				op = "bvslt"
			}
			c := app(op, a.T, r.T)
			if name == "max" {
				c = app(op, r.T, a.T)
			}
			r = vBV(ite(c, a.T, r.T), r.W, r.Signed)
		}
		return r
	case "ssa:wrapnilchk":
		return args[0]
	case "Add":
		// unsafe.Add(ptr, len)
		off, _ := idx64(args[1], cc.Args[1].Type())
		return vPtr(st.define("uadd", sortBV(64), bvadd(args[0].T, off)), args[0].Prov)
	case "String", "Slice":
		// unsafe.String(ptr, len) / unsafe.Slice(ptr, len): the same memory, no copy
		ln, _ := idx64(args[1], cc.Args[1].Type())
		p := args[0]
		if name == "String" {
			return vTuple(vPtr(p.T, p.Prov), vBV(ln, 64, true))
		}
		return vTuple(vPtr(p.T, p.Prov), vBV(ln, 64, true), vBV(ln, 64, true))
	case "StringData", "SliceData":
		return args[0].Fs[0]
	case "Sizeof":
		// unsafe.Sizeof of a value whose type is only known after instantiation (elsewhere it is a constant)
		if _, isTP := cc.Args[0].Type().(*types.TypeParam); !isTP {
			return vBV(bvLit(uint64(sizeof(cc.Args[0].Type())), 64), 64, false)
		}
	}
	unsup("builtin %s", name)
	return V{}
}

func (x *Exec) builtinAppend(st *State, fr *Frame, cc *ssa.CallCommon, args []V, site ssa.Instruction) V {
	data, src := args[0], args[1]
	et := cc.Args[0].Type().Underlying().(*types.Slice).Elem()
	if !isByte(et) {
		return x.appendTyped(st, fr, cc, args, site, et)
	}
	sp := src.Fs[0]
	sl := src.Fs[1].T
	space := spaceOf(sp, "B")
	snap := st.mem[space]
	return x.appendSeqDyn(st, data, sl, func(s *State, i string) string {
		snap.facts(s, bvadd(sp.T, i))
		return app("select", snap.term, bvadd(sp.T, i))
	})
}

// appendSeqDyn models Go's append(data, S...) for byte slices. The result is a
// new private byte space: data's contents with S written at [len, len+|S|).
// Whether Go re-uses the buffer or reallocates only changes the capacity here;
// the bytes of data below len are unchanged either way and the spare capacity
// of the old buffer is never read by verified code (stated assumption).
func (x *Exec) appendSeqDyn(st *State, data V, slen string, byteFn func(s *State, i string) string) V {
	dp, dl, dc := data.Fs[0], data.Fs[1].T, data.Fs[2].T
	sl := st.define("alen", sortBV(64), slen)
	st.assume(and(app("bvsle", bvLit(0, 64), sl), app("bvult", sl, bvLit(maxLen, 64))))
	nl := st.define("nlen", sortBV(64), bvadd(dl, sl))
	ncap := st.freshConst("ncap", sortBV(64))
	st.assume(and(app("bvsge", ncap, nl), app("bvult", ncap, bvLit(maxLen, 64))))
	rc := st.define("rc", sortBV(64), ite(app("bvsle", nl, dc), dc, ncap))
	srcSpace := spaceOf(dp, "B")
	srcSnap := st.mem[srcSpace]
	st.regions++
	st.x.fresh++
	space := fmt.Sprintf("B:a%d_%d", st.regions, st.x.fresh)
	name := st.newMemName("MBa")
	at := st.define("aat", sortBV(64), bvadd(dp.T, dl))
	st.mem[space] = &MemVer{kind: mWrite, term: name, base: srcSnap, at: at, n: sl, byteAt: byteFn}
	region := "fresh"
	if dp.Prov != nil {
		region = dp.Prov.Region
	}
	// appending to a nil slice yields a non-nil pointer exactly when something was appended or data was non-nil
	rp := dp.T
	if v, _, ok := litVal(dp.T); ok && v == 0 {
		// a fresh allocation (bump allocated, so distinct from every other buffer when materialised)
		fresh := st.bump("B", ncap)
		rp = st.define("aptr", sortBV(64), ite(eq(sl, bvLit(0, 64)), bvLit(0, 64), fresh))
		base := st.mem[srcSpace]
		_ = base
		st.mem[space] = &MemVer{kind: mWrite, term: name, base: &MemVer{kind: mBase, term: "zeromem"}, at: rp, n: sl, byteAt: byteFn}
	}
	x.noteAssumption("append is modelled by its result contents; the spare capacity [len,cap) of the old buffer is not read by verified code")
	return vTuple(vPtr(rp, &Prov{Space: space, Region: region}), vBV(nl, 64, true), vBV(rc, 64, true))
}

// appendTyped models append(data, src...) for slices of fixed-size elements kept
// in the typed heap: when the new length fits the capacity the elements are
// written in place, otherwise a fresh array holds a copy of data followed by
// src. Both cases are one write of (len(data)+len(src)) elements at the result
// pointer (in place, the first len(data) elements are rewritten with their own values).
func (x *Exec) appendTyped(st *State, fr *Frame, cc *ssa.CallCommon, args []V, site ssa.Instruction, et types.Type) V {
	data, src := args[0], args[1]
	if data.K != KTuple || len(data.Fs) != 3 || src.K != KTuple || len(src.Fs) < 2 {
		unsup("append on non-byte slice ([]%s): unexpected operand shape", et)
	}
	dp, dl, dc := data.Fs[0], data.Fs[1].T, data.Fs[2].T
	sp, sl := src.Fs[0], src.Fs[1].T
	hsp := spaceOf(dp, "H")
	if hsp != "H" && !strings.HasPrefix(hsp, "H:sep") {
		unsup("append on a []%s outside the heap", et)
	}
	es := bvLit(uint64(sizeof(et)), 64)
	nl := st.define("nlen", sortBV(64), bvadd(dl, sl))
	ncap := st.freshConst("ncap", sortBV(64))
	st.assume(and(app("bvsge", ncap, nl), app("bvult", ncap, bvLit(maxLen, 64))))
	fits := st.define("fits", "Bool", app("bvsle", nl, dc))
	fresh := st.bump("H", st.define("nb", sortBV(64), app("bvmul", ncap, es)))
	rp := st.define("aptr", sortBV(64), ite(fits, dp.T, fresh))
	rc := st.define("rc", sortBV(64), ite(fits, dc, ncap))
	oldBytes := st.define("ob", sortBV(64), app("bvmul", dl, es))
	srcSpace := spaceOf(sp, "H")
	srcSnap := st.mem[srcSpace]
	hSnap := st.mem[hsp]
	if srcSnap == nil || hSnap == nil {
		unsup("append on non-byte slice ([]%s): unknown memory", et)
	}
	st.writeSeq(hsp, rp, st.define("nb", sortBV(64), app("bvmul", nl, es)), func(s *State, k string) string {
		oa := bvadd(dp.T, k)
		sa := bvadd(sp.T, bvsubw(k, oldBytes, 64))
		hSnap.facts(s, oa)
		srcSnap.facts(s, sa)
		return ite(app("bvult", k, oldBytes), app("select", hSnap.term, oa), app("select", srcSnap.term, sa))
	})
	st.noteMod(hsp)
	if hsp == "H" {
		st.noteMod("H:store")
	}
	st.noteMod("H+")
	prov := &Prov{Space: "H", Region: "heap"}
	if hsp != "H" {
		prov = dp.Prov
	}
	return V{K: KTuple, Fs: []V{vPtr(rp, prov), vBV(nl, 64, true), vBV(rc, 64, true)}, Typ: cc.Args[0].Type()}
}

func (x *Exec) appendTypedUnsupported(et types.Type) V {
	unsup("append on non-byte slice ([]%s)", et)
	return V{}
}

// sigOf finds the signature of a contract key: an SSA function, a generic
// instantiation matching the caller's instantiation, or an interface method.
func (x *Exec) sigOf(key, from string) *types.Signature {
	if x.ld == nil {
		return nil
	}
	if f, ok := x.ld.byKey[key]; ok {
		return f.Signature
	}
	if l, ok := x.ld.generic[key]; ok && len(l) > 0 {
		// prefer the instantiation with the same type arguments as the caller
		for _, f := range l {
			fk := fnKey(f)
			if lb := strings.Index(fk, "["); lb >= 0 {
				if rb := strings.Index(fk, "]"); rb > lb && strings.Contains(from, fk[lb:rb+1]) {
					return f.Signature
				}
			}
		}
		return l[0].Signature
	}
	// a package-level function known to the type checker only (no body: go:linkname, assembly)
	if i := strings.LastIndex(key, "."); i > 0 {
		if tp, ok := x.ld.types[key[:i]]; ok {
			if fo, ok := tp.Scope().Lookup(key[i+1:]).(*types.Func); ok {
				if sig, ok := fo.Type().(*types.Signature); ok {
					return sig
				}
			}
		}
	}
	// interface method pkg.Iface.Method
	parts := strings.Split(key, ".")
	if len(parts) >= 3 {
		if tp, ok := x.ld.types[strings.Join(parts[:len(parts)-2], ".")]; ok {
			{
				if obj := tp.Scope().Lookup(parts[len(parts)-2]); obj != nil {
					if it, ok := obj.Type().Underlying().(*types.Interface); ok {
						for i := 0; i < it.NumMethods(); i++ {
							if it.Method(i).Name() == parts[len(parts)-1] {
								sig := it.Method(i).Type().(*types.Signature)
								// give it a receiver so that argument counting includes self
								return types.NewSignatureType(types.NewVar(0, nil, "self", obj.Type()), nil, nil, sig.Params(), sig.Results(), sig.Variadic())
							}
						}
					}
				}
			}
		}
	}
	return nil
}

func (x *Exec) paramNamesOf(key string, sig *types.Signature) []string {
	if x.ld != nil {
		if f, ok := x.ld.byKey[key]; ok {
			return declParamNames(f)
		}
		if l, ok := x.ld.generic[key]; ok && len(l) > 0 {
			return declParamNames(l[0])
		}
	}
	var out []string
	if sig.Recv() != nil {
		out = append(out, "self")
	}
	return append(out, paramNames(sig)...)
}

// heapKeep is the frame predicate of an H havoc: codec metadata is never
// modified, and neither are the ranges the function under analysis declares
// with `keeps` (separation assumptions, reported in the evidence).
func (x *Exec) heapKeep(st *State) func(a string) string {
	var ranges [][2]string
	if x.con != nil && len(st.frames) > 0 {
		top := st.frames[0]
		vars := map[string]V{}
		x.bindParams(vars, top.fn, top.args)
		env := &CEnv{st: st, oldMem: top.entryMem, vars: vars, tparam: x.tparam, fn: x.key}
		for _, k := range x.con.Keeps {
			pv, ok := vars[k.Ptr]
			if !ok || pv.K != KPtr {
				continue
			}
			n, err := env.evalAny(k.N)
			if err != nil {
				continue
			}
			n = coerce(n, 64, false)
			ranges = append(ranges, [2]string{pv.T, n.T})
			x.noteAssumption(fmt.Sprintf("%s: separation - callees and loops do not write the %s bytes at %s (keeps)", x.key, k.N.String(), k.Ptr))
		}
	}
	return func(a string) string {
		cs := []string{app("ismeta", a)}
		for _, r := range ranges {
			cs = append(cs, app("bvult", bvsubw(a, r[0], 64), r[1]))
		}
		return or(cs...)
	}
}

// usesLocals: callee clauses marked local are assumed only by callers whose own
// contract has local clauses (the chain that needs them), so that every other
// caller's queries stay small.
func (x *Exec) usesLocals() bool {
	if x.con == nil {
		return false
	}
	if x.con.UseLocals {
		return true
	}
	for _, en := range x.con.Ensures {
		if en.Local {
			return true
		}
	}
	return false
}

// namedType resolves pkg.Name (short package path) to the named type.
func (x *Exec) namedType(name string) types.Type {
	i := strings.LastIndex(name, ".")
	if i < 0 || x.ld == nil {
		return nil
	}
	tp, ok := x.ld.types[name[:i]]
	if !ok {
		return nil
	}
	if obj := tp.Scope().Lookup(name[i+1:]); obj != nil {
		return obj.Type()
	}
	return nil
}

// atCall proves the caller's `atcall <callee> <expr>` clauses at a call site of the function under analysis.
func (x *Exec) atCall(st *State, fr *Frame, key string, args []V, site ssa.Instruction) {
	if x.con == nil {
		return
	}
	// a call made by a helper that is executed in place counts as a call of the function under contract: the
	// clause is evaluated over that function's variables and call records (arg<i> are the arguments at the site)
	siteFr := fr
	if fr.depth != 0 {
		if len(st.frames) == 0 || st.frames[0].depth != 0 {
			return
		}
		// ... unless the helper (or one between it and the function) has a contract of its own: what happens inside
		// it is that contract's business (an element reader's errors are not the caller's own)
		for _, f := range st.frames[1:] {
			if c, _ := x.contractFor(f.fn); c != nil {
				return
			}
		}
		fr = st.frames[0]
	}
	for i, ac := range x.con.AtCalls {
		if ac.Name != key {
			continue
		}
		vars := map[string]V{}
		x.bindParams(vars, fr.fn, fr.args)
		for obj, v := range fr.names {
			if _, taken := vars[obj.Name()]; !taken {
				vars[obj.Name()] = v
			}
		}
		for k, v := range fr.entryVals {
			vars[k] = v
		}
		for k, a := range args {
			vars[fmt.Sprintf("arg%d", k)] = a
		}
		// the calls made so far (most recent per callee)
		x.bindCallRecords(st, fr.fn, vars, fr.lastCall)
		env := &CEnv{st: st, oldMem: fr.entryMem, headMem: fr.headMem, vars: vars, tparam: x.tparam, fn: x.key, prove: true}
		for _, fv := range fr.fn.FreeVars {
			if cv, ok := st.env[fv]; ok && cv.K == KPtr {
				if env.cells == nil {
					env.cells = map[string]V{}
				}
				cv.Typ = fv.Type()
				env.cells[fv.Name()] = cv
			}
		}
		name := x.instrName(siteFr, site, "call") + fmt.Sprintf(".atcall%d(%s)", i+1, key)
		t, err := env.evalBool(ac.Expr)
		if err != nil {
			x.genFail(name, "atcall", ac.Tags, x.posOf(site.Pos()), err.Error())
			continue
		}
		x.oblige(st, name, "atcall", x.tagsOr(ac.Tags, fr), t, x.posOf(site.Pos()), "at every call of "+key+": "+ac.Text)
	}
}
