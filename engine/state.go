package main

import (
	"fmt"
	"go/token"
	"go/types"
	"sort"
	"strings"
	"sync"

	"golang.org/x/tools/go/ssa"
)

type Obligation struct {
	Name    string
	Kind    string
	Tags    []string
	Pos     string
	Text    string // the clause / condition in contract syntax
	Queries []*Query
	Trivial int // paths on which the goal folded to true in the generator
	Expect  string
	GenFail string // obligation could not be generated (fails closed)
}

type Query struct {
	Script    string
	Inputs    []inputSym
	Expect    string // "unsat" for proof obligations, "sat" for cover / canary queries
	PathID    int
	Result    string
	Solver    string
	Time      float64
	Model     map[string]string
	Output    string
	Quant     bool
	LoopInits [][2]string
	KeepFile  bool
	File      string
	Retried   bool   // undecided within the limit, run again with a longer one
	Role      string // call covers: "pre" (state before the callee's contract is assumed) or "post"
}

type inputSym struct {
	Name string // symbol / term to get-value
	Desc string // e.g. "data.len", "data[3]", "v"
}

type Exec struct {
	prog        *ssa.Program
	specs       *Specs
	fn          *ssa.Function
	key         string
	con         *Contract
	fresh       int
	quantified  bool
	obls        map[string]*Obligation
	order       []string
	tparam      map[string]types.Type
	warnings    []string
	assumptions map[string]bool
	coverRole   string            // role of the cover query being emitted (call covers)
	defBody     map[string]string // define-fun names of address arithmetic -> their bodies (see lin.go)
	defMu       sync.Mutex
	mulBody     map[string]string // define-fun names whose body is a product (sizes of allocations)
	valWidth    map[string]int    // bit width of the values written by multi-byte stores, by term
	pathID      int
	typeIDs     map[string]uint64
	loops       map[*ssa.Function]*loopInfo
	ordinal     map[ssa.Instruction]int
	ufDecl      map[string]string
	globals     map[*ssa.Global]uint64
	recording   int
	recStack    []*recorder
	preSk       map[*CExpr]V
	ld          *Loaded
	maxPaths    int
	budget      int
}

type loopRec struct {
	measure    string
	hasMeasure bool
	modified   map[string]bool
	headSeq    int // the engine's counter at the head of the current iteration: later call records belong to this iteration
}

type deferred struct {
	call *ssa.CallCommon
	args []V
	fnv  V
	recv V
	site ssa.Instruction
}

type Frame struct {
	fn        *ssa.Function
	depth     int
	defers    []deferred
	visits    map[*ssa.BasicBlock]int
	loopRec   map[*ssa.BasicBlock]*loopRec
	names     map[types.Object]V
	headMem   map[string]*MemVer // memories at the head of the current iteration of the innermost cut loop
	entryVals map[string]V       // value of each loop-carried variable when its loop was entered (entry_<name>)
	lastCall  map[string]callRec // contract calls made since the head of the current loop iteration (called_<name>, call_<name>_r<i>)
	bindings  []V
	args      []V
	entryMem  map[string]*MemVer
}

// callRec is the most recent call of a function under contract in the current loop iteration.
type callRec struct {
	args, results []V
	seq           int // position in the execution (the engine's counter when the call returned)
	// maybe: a Boolean term when it is not known whether the call was made (iterations of a loop that was
	// cut); empty for a call that was executed
	maybe string
}

type State struct {
	x          *Exec
	script     []string
	env        map[ssa.Value]V
	mem        map[string]*MemVer
	inst       map[*MemVer]map[string]bool
	modified   map[string]bool
	shadow     map[string]*Prov
	brk        map[string]string
	frames     []*Frame
	inputs     []inputSym
	nlocal     int
	regions    int
	allocs     []string           // allocation size terms (elements), for the allocation bound
	pool       map[int][]string   // instantiation terms by width, for callee quantifiers
	stale      map[string]bool    // pointer terms whose pointee may hold contents left over from earlier use
	ghostMemo  map[string][]V     // results of ghost calls by (callee, argument terms, memory versions)
	strConst   map[string]V       // string constants by content
	loopStores []storeRange       // set while a loop is being cut: the body's heap stores, when all are at addresses fixed before the loop
	loopFresh  bool               // with loopStores: the body also stores into objects allocated by this function
	defMemo    map[string]string  // define-fun bodies already named on this path
	lemmaSeen  map[string]bool    // arithmetic lemmas already asserted on this path (elemLemma)
	poolClass  map[string]string  // instantiation term -> the kind of sequence it indexes ("" = any)
	assumed    map[string]bool    // short assertions already in the script of this path
	exitNames  map[string]V       // named locals of the function under analysis at its return
	exitMem    map[int]map[string]*MemVer // the memories as they were when loop k was left through its head (atexit(k, ...))
	exitVals   map[string]V       // loop-carried variables of the function under analysis when a loop was left through its head (exit_<name>)
	loopDone   map[int]bool       // loops of the function under analysis that were left through their head (loopdone_<k>)
	topCalls   map[string]callRec // most recent contract call per callee made by the function under analysis itself (post-conditions: called_<name>, call_<name>_r<i>)
	boundedIdx map[string]bool    // index terms known to lie in [0, 2^40) on this path (bounds checked or clamped)
	storeFresh bool               // set around a store whose target lies in an object allocated by this function
	loadMeta   bool               // set around a load from codec metadata
	loadFresh  bool               // set around a load from an object allocated by this function
	invInput   bool               // set while the type invariants of an input (parameter) are assumed
	qasm       []*qAssume         // quantified assumptions, instantiated again whenever a new term appears
	inLate     bool
	loopInits  [][2]string // (havocked loop symbol, its value on loop entry): replay prefers first iterations
}

func (st *State) fork() *State {
	n := &State{x: st.x, nlocal: st.nlocal, regions: st.regions}
	n.script = append([]string(nil), st.script...)
	n.env = make(map[ssa.Value]V, len(st.env))
	for k, v := range st.env {
		n.env[k] = v
	}
	n.mem = make(map[string]*MemVer, len(st.mem))
	for k, v := range st.mem {
		n.mem[k] = v
	}
	n.inst = make(map[*MemVer]map[string]bool, len(st.inst))
	for k, v := range st.inst {
		m := make(map[string]bool, len(v))
		for a := range v {
			m[a] = true
		}
		n.inst[k] = m
	}
	n.modified = map[string]bool{}
	for k, v := range st.modified {
		n.modified[k] = v
	}
	n.shadow = make(map[string]*Prov, len(st.shadow))
	for k, v := range st.shadow {
		n.shadow[k] = v
	}
	n.brk = map[string]string{}
	for k, v := range st.brk {
		n.brk[k] = v
	}
	for _, f := range st.frames {
		nf := &Frame{fn: f.fn, depth: f.depth, bindings: f.bindings, args: f.args, entryMem: f.entryMem}
		nf.defers = append([]deferred(nil), f.defers...)
		nf.visits = map[*ssa.BasicBlock]int{}
		for k, v := range f.visits {
			nf.visits[k] = v
		}
		nf.loopRec = map[*ssa.BasicBlock]*loopRec{}
		for k, v := range f.loopRec {
			nf.loopRec[k] = v
		}
		nf.names = map[types.Object]V{}
		for k, v := range f.names {
			nf.names[k] = v
		}
		nf.headMem = f.headMem
		if f.lastCall != nil {
			nf.lastCall = make(map[string]callRec, len(f.lastCall))
			for k, v := range f.lastCall {
				nf.lastCall[k] = v
			}
		}
		nf.entryVals = map[string]V{}
		for k, v := range f.entryVals {
			nf.entryVals[k] = v
		}
		n.frames = append(n.frames, nf)
	}
	n.inputs = append([]inputSym(nil), st.inputs...)
	n.allocs = append([]string(nil), st.allocs...)
	n.loopInits = append([][2]string(nil), st.loopInits...)
	n.qasm = append([]*qAssume(nil), st.qasm...)
	n.stale = map[string]bool{}
	for k, v := range st.stale {
		n.stale[k] = v
	}
	n.defMemo = make(map[string]string, len(st.defMemo))
	for k, v := range st.defMemo {
		n.defMemo[k] = v
	}
	n.lemmaSeen = make(map[string]bool, len(st.lemmaSeen))
	for k, v := range st.lemmaSeen {
		n.lemmaSeen[k] = v
	}
	n.boundedIdx = make(map[string]bool, len(st.boundedIdx))
	for k, v := range st.boundedIdx {
		n.boundedIdx[k] = v
	}
	if st.exitMem != nil {
		n.exitMem = make(map[int]map[string]*MemVer, len(st.exitMem))
		for k, v := range st.exitMem {
			n.exitMem[k] = v
		}
	}
	if st.exitVals != nil {
		n.exitVals = make(map[string]V, len(st.exitVals))
		for k, v := range st.exitVals {
			n.exitVals[k] = v
		}
	}
	if st.loopDone != nil {
		n.loopDone = make(map[int]bool, len(st.loopDone))
		for k, v := range st.loopDone {
			n.loopDone[k] = v
		}
	}
	n.topCalls = make(map[string]callRec, len(st.topCalls))
	for k, v := range st.topCalls {
		n.topCalls[k] = v
	}
	n.assumed = make(map[string]bool, len(st.assumed))
	for k, v := range st.assumed {
		n.assumed[k] = v
	}
	n.poolClass = make(map[string]string, len(st.poolClass))
	for k, v := range st.poolClass {
		n.poolClass[k] = v
	}
	n.strConst = map[string]V{}
	for k, v := range st.strConst {
		n.strConst[k] = v
	}
	n.ghostMemo = map[string][]V{}
	for k, v := range st.ghostMemo {
		n.ghostMemo[k] = v
	}
	n.pool = map[int][]string{}
	for k, v := range st.pool {
		n.pool[k] = append([]string(nil), v...)
	}
	return n
}

func (st *State) top() *Frame { return st.frames[len(st.frames)-1] }

func (st *State) decl(name, sort string) {
	st.script = append(st.script, fmt.Sprintf("(declare-const %s %s)", name, sort))
}

func (st *State) freshConst(prefix, sort string) string {
	st.x.fresh++
	n := fmt.Sprintf("%s_%d", sanitize(prefix), st.x.fresh)
	st.decl(n, sort)
	return n
}

func sanitize(s string) string {
	var b strings.Builder
	for _, c := range s {
		if c >= 'a' && c <= 'z' || c >= 'A' && c <= 'Z' || c >= '0' && c <= '9' || c == '_' {
			b.WriteRune(c)
		} else {
			b.WriteRune('_')
		}
	}
	return b.String()
}

// define names a term; small terms are returned unchanged.
func (st *State) define(prefix, sort, term string) string {
	if len(term) < 24 || !strings.HasPrefix(term, "(") {
		return term
	}
	if prev, ok := st.defMemo[term]; ok {
		return prev // the same term was named before on this path
	}
	st.x.fresh++
	n := fmt.Sprintf("%s_%d", sanitize(prefix), st.x.fresh)
	if st.defMemo == nil {
		st.defMemo = map[string]string{}
	}
	st.defMemo[term] = n
	st.script = append(st.script, fmt.Sprintf("(define-fun %s () %s %s)", n, sort, term))
	if sort == "(_ BitVec 64)" && strings.HasPrefix(term, "(bvmul ") {
		st.x.defMu.Lock()
		st.x.mulBody[n] = term
		st.x.defMu.Unlock()
	}
	if sort == "(_ BitVec 64)" && (strings.HasPrefix(term, "(bvadd ") || strings.HasPrefix(term, "(bvsub ")) {
		st.x.defMu.Lock()
		st.x.defBody[n] = term
		st.x.defMu.Unlock()
	}
	return n
}

// markBounded records that index term t lies in [0, 2^40) on this path.
func (st *State) markBounded(t string) {
	if st.boundedIdx == nil {
		st.boundedIdx = map[string]bool{}
	}
	st.boundedIdx[t] = true
}

func (st *State) assume(c string) {
	if c == "true" || c == "" {
		return
	}
	// the same fact is not asserted twice on one path (type invariants of re-loaded values, repeated frame facts)
	if len(c) <= 400 {
		if st.assumed[c] {
			return
		}
		if st.assumed == nil {
			st.assumed = map[string]bool{}
		}
		st.assumed[c] = true
	}
	st.script = append(st.script, "(assert "+c+")")
}

func (x *Exec) warn(format string, a ...interface{}) {
	w := fmt.Sprintf(format, a...)
	for _, e := range x.warnings {
		if e == w {
			return
		}
	}
	x.warnings = append(x.warnings, w)
}

func (x *Exec) noteAssumption(a string) {
	if x.assumptions == nil {
		x.assumptions = map[string]bool{}
	}
	x.assumptions[a] = true
}

func (x *Exec) posOf(p token.Pos) string {
	if !p.IsValid() {
		return ""
	}
	pp := x.prog.Fset.Position(p)
	return fmt.Sprintf("%s:%d:%d", strings.TrimPrefix(pp.Filename, "/repo/"), pp.Line, pp.Column)
}

// oblige records a proof obligation: under the current path, goal must hold.
func (x *Exec) oblige(st *State, name, kind string, tags []string, goal, pos, text string) {
	if x.recording > 0 {
		return
	}
	if x.con != nil {
		for _, k := range x.con.Trust {
			if k == kind {
				x.noteAssumption(fmt.Sprintf("%s: obligations of kind %s are trusted, not proved (%s)", x.key, kind, text))
				return
			}
		}
	}
	o := x.obls[name]
	if o == nil {
		o = &Obligation{Name: name, Kind: kind, Tags: tags, Pos: pos, Text: text, Expect: "unsat"}
		x.obls[name] = o
		x.order = append(x.order, name)
	}
	if goal == "true" {
		o.Trivial++
		return
	}
	q := &Query{Expect: "unsat", PathID: x.pathID, Quant: x.quantified}
	q.Inputs = append([]inputSym(nil), st.inputs...)
	q.LoopInits = append([][2]string(nil), st.loopInits...)
	var b strings.Builder
	for _, c := range st.script {
		b.WriteString(c)
		b.WriteByte('\n')
	}
	b.WriteString("(assert (not " + goal + "))\n")
	q.Script = b.String()
	o.Queries = append(o.Queries, q)
}

// cover records a satisfiability (vacuity) query.
func (x *Exec) cover(st *State, name, kind string, tags []string, pos, text string) {
	if x.recording > 0 {
		return
	}
	o := x.obls[name]
	if o == nil {
		o = &Obligation{Name: name, Kind: kind, Tags: tags, Pos: pos, Text: text, Expect: "sat"}
		x.obls[name] = o
		x.order = append(x.order, name)
	}
	q := &Query{Expect: "sat", PathID: x.pathID, Role: x.coverRole}
	var b strings.Builder
	for _, c := range st.script {
		b.WriteString(c)
		b.WriteByte('\n')
	}
	q.Script = b.String()
	o.Queries = append(o.Queries, q)
}

func (x *Exec) genFail(name, kind string, tags []string, pos, msg string) {
	if x.recording > 0 {
		return
	}
	o := x.obls[name]
	if o == nil {
		o = &Obligation{Name: name, Kind: kind, Tags: tags, Pos: pos, Expect: "unsat"}
		x.obls[name] = o
		x.order = append(x.order, name)
	}
	if o.GenFail == "" {
		o.GenFail = msg
	}
}

func sortedKeys(m map[string]bool) []string {
	var out []string
	for k := range m {
		out = append(out, k)
	}
	sort.Strings(out)
	return out
}

type qAssume struct {
	env  *CEnv
	expr *CExpr
}

// addPoolClass adds an instantiation term that was seen as an index into a particular kind of
// sequence ("b": bytes, "e:<type>": elements of that type); quantified assumptions whose variable
// only indexes other kinds of sequence are not instantiated at it.
func (st *State) addPoolClass(w int, t, class string) {
	if st.poolClass == nil {
		st.poolClass = map[string]string{}
	}
	if prev, ok := st.poolClass[t]; ok && prev != class {
		class = "" // used in more than one way: generic
	}
	st.poolClass[t] = class
	st.addPool(w, t)
}

func (st *State) addPool(w int, t string) {
	if st.pool == nil {
		st.pool = map[int][]string{}
	}
	if st.poolClass == nil {
		st.poolClass = map[string]string{}
	}
	if _, ok := st.poolClass[t]; !ok {
		st.poolClass[t] = ""
	}
	for _, e := range st.pool[w] {
		if e == t {
			return
		}
	}
	if len(st.pool[w]) >= 80 {
		return
	}
	st.pool[w] = append(st.pool[w], t)
	if st.inLate {
		return
	}
	// late instantiation of the quantified assumptions made so far
	st.inLate = true
	for _, q := range st.qasm {
		e2 := *q.env
		e2.st = st
		e2.vars = map[string]V{}
		for k, v := range q.env.vars {
			e2.vars[k] = v
		}
		e2.onlyTerm = map[int]string{w: t}
		e2.prove = false
		if c, err := e2.evalBool(q.expr); err == nil {
			st.assume(c)
		}
	}
	st.inLate = false
}

// assumeClause assumes a clause and remembers it when it contains a
// universally quantified part, so that it can be instantiated at terms that
// appear later (Skolem witnesses of goals, loop counters).
func (st *State) assumeClause(env *CEnv, e *CExpr) error {
	env.sawForall = false
	t, err := env.evalBool(e)
	if err != nil {
		return err
	}
	st.assume(t)
	if env.sawForall && !st.inLate {
		snap := *env
		snap.vars = map[string]V{}
		for k, v := range env.vars {
			snap.vars[k] = v
		}
		if snap.curMem == nil {
			snap.curMem = snapshotMem(st)
		}
		st.qasm = append(st.qasm, &qAssume{env: &snap, expr: e})
	}
	return nil
}
