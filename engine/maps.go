package main

import "golang.org/x/tools/go/ssa"

// Maps are abstract: a handle (BV64). Operations are given meaning by the
// functions below as far as the properties need it.

func (x *Exec) mapLen(st *State, m V) V {
	x.declareUF("maplen", []string{sortBV(64), sortMem}, sortBV(64))
	t := st.define("mlen", sortBV(64), app("maplen", m.T, st.mem["H"].term))
	st.assume(and(app("bvsle", bvLit(0, 64), t), app("bvult", t, bvLit(maxLen, 64))))
	return vBV(t, 64, true)
}

func (x *Exec) mapLookup(st *State, fr *Frame, ins *ssa.Lookup, m, key V) V {
	unsup("map lookup")
	return V{}
}

func (x *Exec) makeMap(st *State, fr *Frame, ins *ssa.MakeMap) V {
	unsup("make(map)")
	return V{}
}

func (x *Exec) mapUpdate(st *State, fr *Frame, ins *ssa.MapUpdate) {
	unsup("map update")
}

func (x *Exec) rangeInit(st *State, fr *Frame, ins *ssa.Range) V {
	unsup("range")
	return V{}
}

func (x *Exec) rangeNext(st *State, fr *Frame, ins *ssa.Next) V {
	unsup("range next")
	return V{}
}
