package main

import (
	"go/types"
	"strings"

	"golang.org/x/tools/go/ssa"
)

// Maps are abstract: a handle (BV64) into the typed heap. Contents are not
// modelled: lookups and iteration yield unconstrained values, updates havoc
// the heap. What is checked: writes to nil maps and allocation hints.

func (x *Exec) mapLen(st *State, m V) V {
	x.declareUF("maplen", []string{sortBV(64), sortMem}, sortBV(64))
	t := st.define("mlen", sortBV(64), app("maplen", m.T, st.mem["H"].term))
	st.assume(and(app("bvsle", bvLit(0, 64), t), app("bvult", t, bvLit(maxLen, 64))))
	st.assume(implies(eq(m.T, bvLit(0, 64)), eq(t, bvLit(0, 64))))
	return vBV(t, 64, true)
}

func (x *Exec) mapLookup(st *State, fr *Frame, ins *ssa.Lookup, m, key V) V {
	mt := ins.X.Type().Underlying().(*types.Map)
	val := st.symbolic(mt.Elem(), "mapval", func(ls leafShape) *Prov {
		if ls.ByteElem {
			return &Prov{Space: "B", Region: "owned"}
		}
		return &Prov{Space: "H", Region: "heap"}
	}, false)
	if ins.CommaOk {
		ok := st.freshConst("mapok", "Bool")
		x.assumeMapInv(st, key, val, ok)
		return vTuple(val, vBool(ok))
	}
	return val
}

func (x *Exec) makeMap(st *State, fr *Frame, ins *ssa.MakeMap) V {
	if ins.Reserve != nil {
		n, _ := idx64(st.operand(ins.Reserve), ins.Reserve.Type())
		x.allocBound(st, fr, ins, n)
	}
	p := st.allocFresh("H", bvLit(64, 64), false)
	return vPtr(p.T, p.Prov)
}

func (x *Exec) mapUpdate(st *State, fr *Frame, ins *ssa.MapUpdate) {
	m := st.operand(ins.Map)
	x.oblige(st, x.instrName(fr, ins, "mapupdate"), "nilmap", x.safetyTags(fr), not(eq(m.T, bvLit(0, 64))), x.posOf(ins.Pos()), "assignment to an entry of a non-nil map")
	st.assume(not(eq(m.T, bvLit(0, 64))))
	if x.con != nil && x.con.MapInv != nil {
		name := x.instrName(fr, ins, "mapupdate") + ".invariant"
		if t, has := x.mapInv(st, st.operand(ins.Key), st.operand(ins.Value), true); has {
			x.oblige(st, name, "mapinvariant", x.tagsOr(x.con.MapInv.Tags, fr), t, x.posOf(ins.Pos()), "the entry written satisfies the map invariant: "+x.con.MapInv.Text)
		} else {
			x.genFail(name, "mapinvariant", x.con.MapInv.Tags, x.posOf(ins.Pos()), "map invariant could not be evaluated")
		}
		// table entries must own their bytes: nothing stored may point into a caller's buffer
		for _, v := range []V{st.operand(ins.Key), st.operand(ins.Value)} {
			var ls []V
			leaves(v, &ls)
			for _, l := range ls {
				if l.K == KPtr && l.Prov != nil && strings.HasPrefix(l.Prov.Space, "B") {
					goal := "true"
					if strings.HasPrefix(l.Prov.Region, "in:") {
						goal = "false"
					}
					x.oblige(st, x.instrName(fr, ins, "mapupdate")+".noalias", "alias", x.tagsOr(x.con.MapInv.Tags, fr), goal, x.posOf(ins.Pos()), "bytes stored in the map are not the caller's input bytes (region "+l.Prov.Region+")")
				}
			}
		}
	}
	st.materialize(st.operand(ins.Key), ins.Key.Type())
	st.materialize(st.operand(ins.Value), ins.Value.Type())
	st.havoc("H", x.heapKeep(st))
	st.noteMod("H")
}

// Range over a map or string: an abstract enumeration. Next yields (ok, key, value)
// with ok unconstrained; termination of such loops is by the runtime's iterator
// (each entry exactly once) and is an assumption.
func (x *Exec) rangeInit(st *State, fr *Frame, ins *ssa.Range) V {
	v := st.operand(ins.X)
	if v.K == KTuple {
		return v.Fs[0]
	}
	return v
}

func (x *Exec) rangeNext(st *State, fr *Frame, ins *ssa.Next) V {
	tup := ins.Type().(*types.Tuple)
	ok := st.freshConst("rangeok", "Bool")
	out := []V{vBool(ok)}
	for i := 1; i < tup.Len(); i++ {
		t := tup.At(i).Type()
		if b, isB := t.(*types.Basic); isB && b.Kind() == types.Invalid {
			out = append(out, vBV(bvLit(0, 64), 64, true))
			continue
		}
		out = append(out, st.symbolic(t, "rangeval", func(ls leafShape) *Prov {
			if ls.ByteElem {
				return &Prov{Space: "B", Region: "owned"}
			}
			return &Prov{Space: "H", Region: "heap"}
		}, false))
	}
	x.noteAssumption("range over a map/string is an abstract enumeration: each element once, order and contents unconstrained")
	if len(out) == 3 {
		x.assumeMapInv(st, out[1], out[2], ok)
	}
	return vTuple(out...)
}

// mapInv evaluates the function's map invariant for one (key, val) pair.
func (x *Exec) mapInv(st *State, key, val V, prove bool) (string, bool) {
	if x.con == nil || x.con.MapInv == nil {
		return "", false
	}
	env := &CEnv{st: st, vars: map[string]V{"key": key, "val": val}, fn: x.key, prove: prove}
	t, err := env.evalBool(x.con.MapInv.Expr)
	if err != nil {
		x.warn("map invariant: %v", err)
		return "", false
	}
	if !prove {
		x.noteAssumption(x.key + ": map invariant assumed for entries read: " + x.con.MapInv.Text)
	}
	return t, true
}

// assumeMapInv assumes ok ==> invariant(key, val); quantified parts are kept for late instantiation.
func (x *Exec) assumeMapInv(st *State, key, val V, ok string) {
	if x.con == nil || x.con.MapInv == nil {
		return
	}
	env := &CEnv{st: st, vars: map[string]V{"key": key, "val": val, "mapentryok": vBool(ok)}, fn: x.key}
	e := &CExpr{Op: "bin", Tok: "==>", Args: []*CExpr{{Op: "ident", Tok: "mapentryok"}, x.con.MapInv.Expr}}
	if err := st.assumeClause(env, e); err != nil {
		x.warn("map invariant: %v", err)
		return
	}
	x.noteAssumption(x.key + ": map invariant assumed for entries read: " + x.con.MapInv.Text)
}
