package main

import (
	"crypto/sha256"
	"encoding/json"
	"flag"
	"fmt"
	"os"
	"path/filepath"
	"sort"
	"strconv"
	"strings"
	"time"

	"golang.org/x/tools/go/ssa"
)

type Finding struct {
	Property   string `json:"property"`
	Obligation string `json:"obligation"`
	Status     string `json:"status"` // open | fixed
	Commit     string `json:"commit,omitempty"`
	What       string `json:"what"`
	Witness    string `json:"witness,omitempty"`
}

type FindingsFile struct {
	Findings []Finding `json:"findings"`
}

func loadFindings(path string) (*FindingsFile, error) {
	ff := &FindingsFile{}
	b, err := os.ReadFile(path)
	if err != nil {
		if os.IsNotExist(err) {
			return ff, nil
		}
		return nil, err
	}
	if err := json.Unmarshal(b, ff); err != nil {
		return nil, err
	}
	return ff, nil
}

func allTags(c *Contract) []string {
	set := map[string]bool{}
	add := func(ts []string) {
		for _, t := range ts {
			set[t] = true
		}
	}
	add(c.Safety)
	add(c.AssignTags)
	add(c.NoGlobals)
	if c.Delegates != nil {
		add(c.Delegates.Tags)
	}
	for _, nr := range c.NoReads {
		add(nr.Tags)
	}
	if c.MapInv != nil {
		add(c.MapInv.Tags)
	}
	for _, ac := range c.AtCalls {
		add(ac.Tags)
	}
	for _, cl := range c.Requires {
		add(cl.Tags)
	}
	for _, cl := range c.Ensures {
		add(cl.Tags)
	}
	if c.Appends != nil {
		add(c.Appends.Tags)
	}
	if c.AllocBound != nil {
		add(c.AllocBound.Tags)
	}
	for _, l := range c.Loops {
		for _, cl := range l.Invariants {
			add(cl.Tags)
		}
		for _, cl := range l.Steps {
			add(cl.Tags)
		}
		for _, cl := range l.Entries {
			add(cl.Tags)
		}
		if l.Decreases != nil {
			add(l.Decreases.Tags)
		}
	}
	return sortedKeys(set)
}

type funcRun struct {
	key  string
	x    *Exec
	err  error
	obls []*Obligation
	genS float64
}

type checkReport struct {
	funcs       []*funcRun
	obligations []*Obligation
	owner       map[*Obligation]*funcRun
}

// targetsFor lists (function, contract) pairs relevant to a property.
func targetsFor(ld *Loaded, specs *Specs, prop string) []*funcRun {
	var keys []string
	for k := range specs.Contracts {
		keys = append(keys, k)
	}
	sort.Strings(keys)
	var out []*funcRun
	for _, k := range keys {
		c := specs.Contracts[k]
		if c.Trusted || c.Inline {
			continue
		}
		if prop != "" && !contractHasTag(c, prop) {
			continue
		}
		var fns []*ssa.Function
		if f, ok := ld.byKey[k]; ok {
			fns = append(fns, f)
		} else if l, ok := ld.generic[k]; ok {
			fns = append(fns, l...)
		}
		if len(fns) == 0 {
			out = append(out, &funcRun{key: k, err: fmt.Errorf("contract target %s does not exist in the repository", k)})
			continue
		}
		for _, f := range fns {
			con, tp := (&Exec{specs: specs}).contractFor(f)
			out = append(out, &funcRun{key: fnKey(f), x: newExec(ld.prog, specs, f, con, tp)})
		}
	}
	return out
}

// scenarioMatch: the key is a prefix of the obligation name; '%' in the key
// stands for any run of characters (ordinals that move when code is edited).
func scenarioMatch(name, key string) bool {
	parts := strings.Split(key, "%")
	if !strings.HasPrefix(name, parts[0]) {
		return false
	}
	rest := name[len(parts[0]):]
	for _, p := range parts[1:] {
		i := strings.Index(rest, p)
		if i < 0 {
			return false
		}
		rest = rest[i+len(p):]
	}
	return true
}

// findingMatch: a known finding names its obligation exactly, except that '%'
// stands for a call ordinal that moves when unrelated code is edited.
func findingMatch(name, key string) bool {
	if !strings.Contains(key, "%") {
		return name == key
	}
	parts := strings.Split(key, "%")
	return scenarioMatch(name, key) && strings.HasSuffix(name, parts[len(parts)-1])
}

func cmdCheck(args []string) int {
	fs := flag.NewFlagSet("check", flag.ExitOnError)
	repo := fs.String("repo", "/repo", "")
	verif := fs.String("verif", "/verif", "")
	prop := fs.String("property", "", "property id")
	tier := fs.String("tier", "", "quick|thorough")
	update := fs.Bool("update-baseline", false, "rewrite the obligation baseline of this property")
	noEvidence := fs.Bool("no-evidence", false, "")
	onlyFiles := fs.String("files", "", "comma-separated source files (relative to the repo): analyse only the functions defined in them (self-tests: a change to a file can only change the obligations of its own functions, contracts being unchanged); implies no baseline comparison and no lemmas")
	verbose := fs.Bool("v", false, "")
	replayRoot := fs.String("replay-dir", "", "directory for replay files (default <verif>/replays)")
	fs.Parse(args)
	if *tier == "" {
		*tier = os.Getenv("VERIF_TIER")
	}
	if *tier == "" {
		*tier = "quick"
	}
	seed, _ := strconv.Atoi(os.Getenv("VERIF_SEED"))
	start := time.Now()
	timeoutS := 20
	crossCheck := false
	if *tier == "thorough" {
		timeoutS = 60
		crossCheck = true
		callCovers = true
	}
	fail := func(msg string) int {
		fmt.Println("ERROR:", msg)
		rp := filepath.Join(*verif, "replays", *prop)
		os.MkdirAll(rp, 0o755)
		f := filepath.Join(rp, "machinery-error.json")
		b, _ := json.MarshalIndent(map[string]string{"property": *prop, "error": msg}, "", " ")
		os.WriteFile(f, b, 0o644)
		fmt.Printf("VIOLATION property=%s replay=%s no-failing-input-found\n", *prop, f)
		return 1
	}
	specs, err := loadSpecs(filepath.Join(*verif, "spec"), *repo)
	if err != nil {
		return fail("contracts do not parse: " + err.Error())
	}
	ld, err := loadRepo(*repo)
	if err != nil {
		return fail(err.Error())
	}
	theCatalogue = loadCatalogue(*verif)
	findings, err := loadFindings(filepath.Join(*verif, "known_findings.json"))
	if err != nil {
		return fail("known_findings.json: " + err.Error())
	}
	runs := targetsFor(ld, specs, *prop)
	if *onlyFiles != "" {
		want := map[string]bool{}
		for _, f := range strings.Split(*onlyFiles, ",") {
			want[filepath.Clean(filepath.Join(*repo, strings.TrimSpace(f)))] = true
		}
		var kept []*funcRun
		for _, r := range runs {
			if r.x != nil && r.x.fn != nil {
				if pos := ld.prog.Fset.Position(r.x.fn.Pos()); want[filepath.Clean(pos.Filename)] {
					kept = append(kept, r)
				}
			}
		}
		runs = kept
	}
	genStart := time.Now()
	// generate obligations (parallel per function)
	type res struct{ i int }
	ch := make(chan int, len(runs))
	sem := make(chan struct{}, 8)
	for i := range runs {
		go func(i int) {
			sem <- struct{}{}
			defer func() { <-sem; ch <- i }()
			r := runs[i]
			if r.x == nil {
				return
			}
			t0 := time.Now()
			r.err = r.x.analyze()
			r.genS = time.Since(t0).Seconds()
		}(i)
	}
	for range runs {
		<-ch
	}
	genS := time.Since(genStart).Seconds()
	rep := &checkReport{owner: map[*Obligation]*funcRun{}}
	var genErrors []string
	for _, r := range runs {
		if r.err != nil {
			genErrors = append(genErrors, r.key+": "+r.err.Error())
			// fail closed: an obligation that cannot be generated
			o := &Obligation{Name: r.key + "#generate", Kind: "generate", Tags: []string{*prop}, GenFail: r.err.Error(), Expect: "unsat"}
			rep.obligations = append(rep.obligations, o)
			rep.owner[o] = r
			continue
		}
		tags := allTags(r.x.con)
		for _, n := range r.x.order {
			o := r.x.obls[n]
			if o.Kind == "cover" {
				o.Tags = tags
			}
			if len(o.Tags) == 0 {
				o.Tags = r.x.con.Safety
			}
			if *prop == "" || hasTag(o.Tags, *prop) {
				rep.obligations = append(rep.obligations, o)
				rep.owner[o] = r
				r.obls = append(r.obls, o)
			}
		}
	}
	// lemmas
	lemmaX := newExec(ld.prog, specs, nil, &Contract{}, nil)
	for _, lm := range specs.Lemmas {
		if (*prop != "" && !hasTag(lm.Tags, *prop)) || *onlyFiles != "" {
			continue
		}
		st := &State{x: lemmaX, env: map[ssa.Value]V{}, mem: map[string]*MemVer{}, inst: map[*MemVer]map[string]bool{}, modified: map[string]bool{}, shadow: map[string]*Prov{}, brk: map[string]string{}}
		env := &CEnv{st: st, vars: map[string]V{}, prove: true}
		name := "lemma." + lm.Name
		t, err := env.evalBool(lm.Expr)
		if err != nil {
			lemmaX.genFail(name, "lemma", lm.Tags, lm.File, err.Error())
		} else {
			lemmaX.oblige(st, name, "lemma", lm.Tags, t, fmt.Sprintf("%s:%d", filepath.Base(lm.File), lm.Line), lm.Text)
		}
		o := lemmaX.obls[name]
		rep.obligations = append(rep.obligations, o)
		rep.owner[o] = &funcRun{key: "lemma", x: lemmaX}
	}
	if len(rep.obligations) == 0 {
		return fail("no obligations were generated for property " + *prop)
	}
	work, _ := os.MkdirTemp("", "plencvc-"+*prop+"-")
	defer os.RemoveAll(work)
	solveStart := time.Now()
	// discharge, grouped by owner for the right UF declarations
	byOwner := map[*funcRun][]*Obligation{}
	var owners []*funcRun
	for _, o := range rep.obligations {
		ow := rep.owner[o]
		if _, ok := byOwner[ow]; !ok {
			owners = append(owners, ow)
		}
		byOwner[ow] = append(byOwner[ow], o)
	}
	oc := make(chan struct{}, len(owners))
	osem := make(chan struct{}, 4)
	for _, ow := range owners {
		go func(ow *funcRun) {
			osem <- struct{}{}
			defer func() { <-osem; oc <- struct{}{} }()
			d, _ := os.MkdirTemp(work, "o")
			var hx *Exec
			if ow.x != nil {
				hx = ow.x
			}
			dischargeAll(byOwner[ow], header(specs, hx), d, timeoutS, crossCheck, 4)
		}(ow)
	}
	for range owners {
		<-oc
	}
	solveS := time.Since(solveStart).Seconds()

	// baseline of obligation names (fail closed when something stops being generated)
	baseFile := filepath.Join(*verif, "obligations", *prop+".txt")
	// only obligations that stem from contract clauses are pinned: safety obligations are named
	// after instruction ordinals, which harmless refactorings change
	pinned := map[string]bool{"ensures": true, "appends": true, "invariant": true, "decreases": true, "frame": true, "cover": true, "lemma": true, "unwind": true}
	var names []string
	for _, o := range rep.obligations {
		if pinned[o.Kind] {
			names = append(names, o.Name)
		}
	}
	sort.Strings(names)
	if *update {
		os.MkdirAll(filepath.Dir(baseFile), 0o755)
		os.WriteFile(baseFile, []byte(strings.Join(names, "\n")+"\n"), 0o644)
	}
	missing := []string{}
	if b, err := os.ReadFile(baseFile); err == nil && *onlyFiles == "" {
		have := map[string]bool{}
		for _, n := range names {
			have[n] = true
		}
		for _, n := range strings.Split(strings.TrimSpace(string(b)), "\n") {
			if n != "" && !have[n] {
				missing = append(missing, n)
			}
		}
	}

	// verdicts
	if *replayRoot == "" {
		*replayRoot = filepath.Join(*verif, "replays")
	}
	replayDir := filepath.Join(*replayRoot, *prop)
	os.RemoveAll(replayDir)
	violations := 0
	known := 0
	discharged := 0
	byBackend := map[string]int{}
	var solverTime, slowT float64
	retried := []string{}
	slowest := ""
	var samples []map[string]string
	var knownLines []string
	replayBudget := 6
	covers := 0
	for _, o := range rep.obligations {
		status, badq := obligationStatus(o)
		for _, q := range o.Queries {
			solverTime += q.Time
			if q.Result == q.Expect && q.Solver != "" {
				byBackend[q.Solver]++
			}
			if q.Retried {
				retried = append(retried, fmt.Sprintf("%s: %s after %.1fs", o.Name, q.Result, q.Time))
			}
			if q.Time > slowT {
				slowT, slowest = q.Time, fmt.Sprintf("%s (%.1fs, %s)", o.Name, q.Time, q.Solver)
			}
		}
		if o.Kind == "cover" {
			covers++
		}
		if status == "proved" || status == "covered" {
			discharged++
			if len(samples) < 6 && len(o.Queries) > 0 && o.Kind != "cover" {
				h := sha256.Sum256([]byte(o.Queries[0].Script))
				samples = append(samples, map[string]string{"obligation": o.Name, "kind": o.Kind, "clause": o.Text, "pos": o.Pos,
					"queries": strconv.Itoa(len(o.Queries)), "smt_sha256": fmt.Sprintf("%x", h[:8]), "solver": o.Queries[0].Solver})
			}
			if *verbose {
				fmt.Printf("%-8s %s\n", status, o.Name)
			}
			continue
		}
		// not discharged
		var kf *Finding
		for i := range findings.Findings {
			f := &findings.Findings[i]
			if f.Property == *prop && findingMatch(o.Name, f.Obligation) && f.Status == "open" {
				kf = f
			}
		}
		ow := rep.owner[o]
		var rr *ReplayResult
		scenario := ""
		if theCatalogue != nil {
			for pre, f := range theCatalogue.Scenarios {
				if scenarioMatch(o.Name, pre) {
					scenario = f
				}
			}
		}
		if scenario != "" && status == "FAILED" && replayBudget > 0 {
			replayBudget--
			d, _ := os.MkdirTemp(work, "scn")
			rr = scenarioReplay(*verif, scenario, d, *repo)
		} else if ow.x != nil && ow.x.fn != nil && badq != nil && replayBudget > 0 && status == "FAILED" {
			replayBudget--
			rr = replayObligation(ld, specs, ow.x, o, badq, work, *repo, timeoutS)
		} else {
			rr = &ReplayResult{How: "not-replayable"}
			switch {
			case o.GenFail != "":
				rr.Detail = "obligation could not be generated: " + o.GenFail
			case badq != nil && badq.Result != "sat":
				rr.Detail = "solver answer: " + badq.Result
			case replayBudget <= 0:
				rr.Detail = "replay budget of this run used up"
			}
		}
		if kf != nil && status == "FAILED" {
			known++
			line := fmt.Sprintf("KNOWN-FINDING: property=%s %s [%s]", *prop, kf.What, o.Name)
			if rr != nil && !rr.Reproduced {
				line += " (witness did not replay this run: " + rr.How + ")"
			}
			knownLines = append(knownLines, line)
			fmt.Println(line)
			continue
		}
		violations++
		os.MkdirAll(replayDir, 0o755)
		rf := filepath.Join(replayDir, sanitize(o.Name)+".json")
		doc := map[string]interface{}{
			"property": *prop, "obligation": o.Name, "kind": o.Kind, "clause": o.Text, "pos": o.Pos, "status": status,
			"replay": rr,
		}
		if badq != nil {
			doc["solver_result"] = badq.Result
			doc["solver"] = badq.Solver
			doc["solver_output"] = tail(badq.Output, 1500)
			doc["model"] = badq.Model
			smt := filepath.Join(replayDir, sanitize(o.Name)+".smt2")
			os.WriteFile(smt, []byte(header(specs, ow.x)+badq.Script+"(check-sat)\n(get-model)\n"), 0o644)
			doc["smt_file"] = smt
		}
		if o.GenFail != "" {
			doc["generation_error"] = o.GenFail
		}
		b, _ := json.MarshalIndent(doc, "", " ")
		os.WriteFile(rf, b, 0o644)
		suffix := ""
		if rr == nil || !rr.Reproduced {
			suffix = " no-failing-input-found"
		}
		fmt.Printf("VIOLATION property=%s replay=%s%s\n", *prop, rf, suffix)
		fmt.Printf("  obligation %s (%s) %s: %s\n", o.Name, o.Kind, status, o.Text)
		if rr != nil {
			fmt.Printf("  replay: %s %s\n", rr.How, rr.Detail)
		}
	}
	for _, n := range missing {
		violations++
		os.MkdirAll(replayDir, 0o755)
		rf := filepath.Join(replayDir, "missing_"+sanitize(n)+".json")
		b, _ := json.MarshalIndent(map[string]string{"property": *prop, "obligation": n, "status": "obligation is in the committed baseline but was not generated from the current source"}, "", " ")
		os.WriteFile(rf, b, 0o644)
		fmt.Printf("VIOLATION property=%s replay=%s no-failing-input-found\n  obligation %s was not generated (contract target or clause missing)\n", *prop, rf, n)
	}

	// evidence
	if !*noEvidence {
		var fnames []string
		assumptions := map[string]bool{}
		var warnings []string
		var outside []string
		for _, r := range runs {
			if r.x == nil {
				continue
			}
			if r.err != nil {
				outside = append(outside, r.key+": "+r.err.Error())
				continue
			}
			if len(r.obls) > 0 {
				fnames = append(fnames, r.key)
				for a := range r.x.assumptions {
					assumptions[a] = true
				}
				warnings = append(warnings, r.x.warnings...)
			}
		}
		sort.Strings(fnames)
		trusted := []string{
			"go/packages + go/ssa (x/tools v0.29.0) faithfully represent the compiled source",
			"SMT solvers z3 4.8.12, z3 5.1.0, cvc5 1.0.x (raced; first definite answer)",
			"plencvc VC generator and /verif/spec prelude",
			"Go semantics of append/slicing/conversions as modelled (DESIGN.md section 2.3)",
		}
		asl := sortedKeys(assumptions)
		ev := map[string]interface{}{
			"property_id": *prop,
			"tier":        *tier,
			"seed":        seed,
			"level":       "proof",
			"wall_s":      time.Since(start).Seconds(),
			"violations":  violations,
			"assumptions": append(asl, "integers are fixed-width bit-vectors (machine arithmetic is exact, not mathematical)"),
			"coverage": map[string]interface{}{
				// obligations listed as open known findings (genuine defects recorded in known_findings.json) are
				// not part of the proof claim: they are counted apart and reported with KNOWN-FINDING lines
				"obligations":                           len(rep.obligations) - known,
				"discharged":                            discharged,
				"obligations_generated":                 len(rep.obligations),
				"obligations_failing_as_known_findings": known,
				"explanation":                           "obligations = generated obligations minus those that fail as open known findings (genuine defects listed in known_findings.json, each printed as a KNOWN-FINDING line); every other obligation was discharged on this run",
				"checker_cmd":                           fmt.Sprintf("/verif/bin/plencvc check --property %s --tier %s", *prop, *tier),
				"trusted_base":                          trusted,
				"functions_under_contract":              fnames,
				"by_backend":                            byBackend,
				"solver_time_s":                         solverTime,
				"slowest_query":                         slowest,
				"queries_run_again_with_a_longer_limit": retried,
				"generate_s":                            genS,
				"solve_wall_s":                          solveS,
				"load_s":                                ld.loadS,
				"cover_queries":                         covers,
				"known_findings_reported":               knownLines,
				"outside_subset":                        outside,
				"warnings":                              dedup(warnings),
				"bounded":                               []string{},
				"samples":                               samples,
				"evaluations":                           len(rep.obligations),
				"distinct_nontrivial":                   discharged,
				"rule":                                  "one obligation per named program point / contract clause; an obligation counts as discharged only if every path query is unsat (cover obligations: at least one sat)",
			},
		}
		os.MkdirAll(filepath.Join(*verif, "evidence"), 0o755)
		b, _ := json.MarshalIndent(ev, "", " ")
		os.WriteFile(filepath.Join(*verif, "evidence", *prop+".json"), b, 0o644)
	}
	fmt.Printf("property %s tier %s: %d obligations, %d discharged, %d known findings, %d violations; load %.1fs gen %.1fs solve %.1fs total %.1fs\n",
		*prop, *tier, len(rep.obligations), discharged, known, violations, ld.loadS, genS, solveS, time.Since(start).Seconds())
	if len(genErrors) > 0 {
		for _, e := range genErrors {
			fmt.Println("  generation error:", e)
		}
	}
	if violations > 0 {
		return 1
	}
	return 0
}

func dedup(in []string) []string {
	seen := map[string]bool{}
	var out []string
	for _, s := range in {
		if !seen[s] {
			seen[s] = true
			out = append(out, s)
		}
	}
	return out
}
