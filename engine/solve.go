package main

import (
	"bytes"
	"context"
	"fmt"
	"os"
	"os/exec"
	"path/filepath"
	"runtime"
	"strings"
	"sync"
	"time"
)

type solverSpec struct {
	name string
	argv func(file string, timeoutS int) []string
}

var solvers = []solverSpec{
	{"z3-new", func(f string, t int) []string { return []string{"z3-new", fmt.Sprintf("-T:%d", t), f} }},
	{"z3", func(f string, t int) []string { return []string{"/usr/bin/z3", fmt.Sprintf("-T:%d", t), f} }},
	{"cvc5", func(f string, t int) []string {
		return []string{"cvc5", fmt.Sprintf("--tlimit=%d", t*1000), "--produce-models", f}
	}},
	// integer-based bit-vector back ends: much faster on add/compare chains over 64-bit lengths
	{"cvc5-bvint", func(f string, t int) []string {
		return []string{"cvc5", fmt.Sprintf("--tlimit=%d", t*1000), "--produce-models", "--solve-bv-as-int=iand", f}
	}},
	{"z3-new-bvint", func(f string, t int) []string {
		return []string{"z3-new", fmt.Sprintf("-T:%d", t), "smt.bv.solver=2", f}
	}},
}

type answer struct {
	solver string
	result string
	output string
	time   float64
}

// solverSlots bounds the number of solver processes running at once to the
// number of cores, so that a solver's wall-clock limit measures its own work
// and not the contention with its siblings.
var solverSlots = make(chan struct{}, maxInt(4, runtime.NumCPU()/2))

func runSolver(ctx context.Context, s solverSpec, file string, timeoutS int) answer {
	select {
	case solverSlots <- struct{}{}:
		defer func() { <-solverSlots }()
	case <-ctx.Done():
		return answer{solver: s.name, result: "unknown", output: "cancelled"}
	}
	if ctx.Err() != nil {
		return answer{solver: s.name, result: "unknown", output: "cancelled"}
	}
	start := time.Now()
	argv := s.argv(file, timeoutS)
	cctx, cancel := context.WithTimeout(ctx, time.Duration(timeoutS+2)*time.Second)
	defer cancel()
	cmd := exec.CommandContext(cctx, argv[0], argv[1:]...)
	var out bytes.Buffer
	cmd.Stdout = &out
	cmd.Stderr = &out
	cmd.Run()
	o := out.String()
	first := ""
	for _, ln := range strings.Split(o, "\n") {
		ln = strings.TrimSpace(ln)
		if ln == "" || strings.HasPrefix(ln, "WARNING") {
			continue
		}
		first = ln
		break
	}
	res := "unknown"
	switch first {
	case "sat", "unsat":
		res = first
	case "timeout":
		res = "timeout"
	}
	if cctx.Err() != nil && res == "unknown" {
		res = "timeout"
	}
	return answer{solver: s.name, result: res, output: o, time: time.Since(start).Seconds()}
}

// solveQuery races the solvers; all=true waits for every solver (thorough tier cross check).
func solveQuery(workdir string, id int, header string, q *Query, timeoutS int, all bool) (answers []answer) {
	var b strings.Builder
	b.WriteString(header)
	b.WriteString(q.Script)
	b.WriteString("(check-sat)\n")
	if len(q.Inputs) > 0 && q.Expect == "unsat" {
		b.WriteString("(get-value (")
		for _, in := range q.Inputs {
			b.WriteString(in.Name)
			b.WriteByte(' ')
		}
		b.WriteString("))\n")
	}
	file := filepath.Join(workdir, fmt.Sprintf("q%06d.smt2", id))
	os.WriteFile(file, []byte(b.String()), 0o644)
	ctx, cancel := context.WithCancel(context.Background())
	defer cancel()
	ch := make(chan answer, len(solvers))
	for _, s := range solvers {
		go func(s solverSpec) { ch <- runSolver(ctx, s, file, timeoutS) }(s)
	}
	// all = cross-check (thorough tier): after the first definite answer, wait a little longer for a
	// definite answer from the other solver family (z3 / cvc5); decide() reports any disagreement.
	var crossDeadline <-chan time.Time
	firstFamily := ""
	got := 0
loop:
	for got < len(solvers) {
		var a answer
		select {
		case a = <-ch:
		case <-crossDeadline:
			cancel()
			break loop
		}
		got++
		answers = append(answers, a)
		if a.result != "sat" && a.result != "unsat" {
			continue
		}
		if !all {
			// put the deciding answer first
			answers[0], answers[len(answers)-1] = answers[len(answers)-1], answers[0]
			cancel()
			break loop
		}
		fam := solverFamily(a.solver)
		if firstFamily == "" {
			firstFamily = fam
			crossDeadline = time.After(crossWait)
		} else if fam != firstFamily {
			cancel()
			break loop
		}
	}
	if !q.KeepFile {
		// files of discharged obligations are removed by the caller
	}
	q.File = file
	return answers
}

type job struct {
	o *Obligation
	q *Query
}

// dischargeAll runs every query of every obligation on a worker pool.
func dischargeAll(obls []*Obligation, header string, workdir string, timeoutS int, all bool, workers int) {
	var jobs []job
	for _, o := range obls {
		for _, q := range o.Queries {
			jobs = append(jobs, job{o, q})
		}
	}
	ch := make(chan int)
	var wg sync.WaitGroup
	for w := 0; w < workers; w++ {
		wg.Add(1)
		go func() {
			defer wg.Done()
			for i := range ch {
				j := jobs[i]
				ans := solveQuery(workdir, i, header, j.q, timeoutS, all)
				decide(j.q, ans)
			}
		}()
	}
	for i := range jobs {
		ch <- i
	}
	close(ch)
	wg.Wait()
	// second chance: a query no solver decided within the limit is run again, few at a time and with a
	// longer limit. A machine that is busy with other work makes a solver miss a wall-clock limit it
	// normally meets with room to spare; an obligation must not fail for that reason.
	var again []int
	for i, j := range jobs {
		if j.q.Result == "timeout" || j.q.Result == "unknown" {
			again = append(again, i)
		}
	}
	if len(again) == 0 || len(again) > retryMax {
		return
	}
	retryT := timeoutS * 3
	if retryT < 60 {
		retryT = 60
	}
	ch2 := make(chan int)
	var wg2 sync.WaitGroup
	for w := 0; w < 2; w++ {
		wg2.Add(1)
		go func() {
			defer wg2.Done()
			for i := range ch2 {
				j := jobs[i]
				first := j.q.Time
				j.q.Output, j.q.Time = "", 0
				ans := solveQuery(workdir, i, header, j.q, retryT, all)
				decide(j.q, ans)
				j.q.Retried = true
				j.q.Time += first
			}
		}()
	}
	for _, i := range again {
		ch2 <- i
	}
	close(ch2)
	wg2.Wait()
}

// retryMax: more undecided queries than this are not a busy machine but a change that broke things.
const retryMax = 24

func decide(q *Query, ans []answer) {
	q.Result = "unknown"
	sawSat, sawUnsat := false, false
	for _, a := range ans {
		switch a.result {
		case "sat":
			sawSat = true
		case "unsat":
			sawUnsat = true
		}
	}
	if sawSat && sawUnsat {
		q.Result = "disagree"
		for _, a := range ans {
			q.Output += a.solver + ": " + a.result + "\n"
		}
		return
	}
	for _, a := range ans {
		if a.result == "sat" || a.result == "unsat" {
			q.Result = a.result
			q.Solver = a.solver
			q.Time = a.time
			q.Output = a.output
			if a.result == "sat" {
				q.Model = parseModel(a.output, q.Inputs)
			}
			return
		}
	}
	// no definite answer
	for _, a := range ans {
		if a.result == "timeout" {
			q.Result = "timeout"
		}
		q.Output += a.solver + ": " + a.result + " " + firstLines(a.output, 3) + "\n"
		if a.time > q.Time {
			q.Time = a.time
		}
	}
}

func firstLines(s string, n int) string {
	ls := strings.Split(strings.TrimSpace(s), "\n")
	if len(ls) > n {
		ls = ls[:n]
	}
	return strings.Join(ls, " | ")
}

// parseModel reads the (get-value ...) answer: a list of (term value) pairs
// in the order of the inputs.
func parseModel(out string, inputs []inputSym) map[string]string {
	i := strings.Index(out, "((")
	if i < 0 {
		return nil
	}
	toks := sexprTokens(out[i:])
	// parse top-level list of pairs
	pos := 0
	var parse func() interface{}
	parse = func() interface{} {
		if pos >= len(toks) {
			return nil
		}
		t := toks[pos]
		pos++
		if t == "(" {
			var l []interface{}
			for pos < len(toks) && toks[pos] != ")" {
				l = append(l, parse())
			}
			pos++
			return l
		}
		return t
	}
	top, ok := parse().([]interface{})
	if !ok {
		return nil
	}
	m := map[string]string{}
	for k, p := range top {
		pair, ok := p.([]interface{})
		if !ok || len(pair) != 2 || k >= len(inputs) {
			continue
		}
		m[inputs[k].Desc] = flat(pair[1])
	}
	return m
}

func flat(x interface{}) string {
	switch v := x.(type) {
	case string:
		return v
	case []interface{}:
		var parts []string
		for _, e := range v {
			parts = append(parts, flat(e))
		}
		return "(" + strings.Join(parts, " ") + ")"
	}
	return ""
}

func sexprTokens(s string) []string {
	var toks []string
	i := 0
	for i < len(s) {
		c := s[i]
		switch {
		case c == '(' || c == ')':
			toks = append(toks, string(c))
			i++
		case c == ' ' || c == '\n' || c == '\t' || c == '\r':
			i++
		default:
			j := i
			for j < len(s) && !strings.ContainsRune("() \n\t\r", rune(s[j])) {
				j++
			}
			toks = append(toks, s[i:j])
			i = j
		}
	}
	return toks
}

// crossWait: how long the thorough tier waits for a second opinion from the other solver family.
const crossWait = 8 * time.Second

func solverFamily(name string) string {
	if strings.HasPrefix(name, "cvc5") {
		return "cvc5"
	}
	return "z3"
}

func maxInt(a, b int) int {
	if a > b {
		return a
	}
	return b
}
