package main

import (
	"fmt"
	"go/types"
	"strings"

	"golang.org/x/tools/go/ssa"
)

var theLoaded *Loaded

func newExec(prog *ssa.Program, specs *Specs, fn *ssa.Function, con *Contract, tp map[string]types.Type) *Exec {
	key := "lemma"
	if fn != nil {
		key = fnKey(fn)
	}
	return &Exec{ld: theLoaded, prog: prog, specs: specs, fn: fn, key: key, con: con, tparam: tp,
		obls: map[string]*Obligation{}, typeIDs: map[string]uint64{}, loops: map[*ssa.Function]*loopInfo{},
		ordinal: map[ssa.Instruction]int{}, globals: map[*ssa.Global]uint64{}, defBody: map[string]string{}, valWidth: map[string]int{}, mulBody: map[string]string{}}
}

func (x *Exec) entryState() (*State, []V) {
	st := &State{x: x, env: map[ssa.Value]V{}, mem: map[string]*MemVer{}, inst: map[*MemVer]map[string]bool{},
		modified: map[string]bool{}, shadow: map[string]*Prov{}, brk: map[string]string{}}
	for _, sp := range []string{"H", "B", "G"} {
		st.decl(sp+"0", sortMem)
		st.mem[sp] = &MemVer{kind: mBase, term: sp + "0"}
	}
	for _, sp := range []string{"H", "B"} {
		// everything the caller hands in lies below 2^47; fresh allocations are placed above
		st.brk[sp] = bvLit(maxAddr, 64)
	}
	fn := x.fn
	var args []V
	for i, p := range fn.Params {
		isRecv := i == 0 && fn.Signature.Recv() != nil && !(x.con != nil && x.con.Mutable)
		name := p.Name()
		if name == "" || name == "_" {
			name = fmt.Sprintf("p%d", i)
		}
		v := st.symbolic(p.Type(), name, provForParam(name, p.Type(), isRecv), true)
		args = append(args, v)
	}
	// separate regions (Go type safety: distinct objects do not overlap)
	if x.con != nil {
		for _, sp := range x.con.Separate {
			for i, p := range fn.Params {
				if p.Name() != sp.Param {
					continue
				}
				addr, err := sepHeaderAddr(args[i], p.Type(), sp.Field)
				if err != nil {
					unsup("separate %s.%s: %v", sp.Param, sp.Field, err)
				}
				st.x.fresh++
				space := fmt.Sprintf("H:sep%d", st.x.fresh)
				an := fmt.Sprintf("H_sep_%d", st.x.fresh)
				st.decl(an, sortMem)
				st.mem[space] = &MemVer{kind: mBase, term: an}
				st.shadow["H@"+addr] = &Prov{Space: space, Region: "sep:" + sp.Param + "." + sp.Field}
				x.noteAssumption(fmt.Sprintf("%s: the array behind %s.%s is an object of its own, overlapping no other object (Go type safety; precondition 'separate')", x.key, sp.Param, sp.Field))
			}
		}
	}
	// input bytes for counterexample extraction
	for i := range fn.Params {
		v := args[i]
		if v.K == KTuple && len(v.Fs) >= 2 && v.Fs[0].K == KPtr && v.Fs[0].Prov != nil && strings.HasPrefix(v.Fs[0].Prov.Space, "B:") {
			arr := st.mem[v.Fs[0].Prov.Space].term
			for k := 0; k < replayByteCap; k++ {
				st.inputs = append(st.inputs, inputSym{Name: app("select", arr, bvadd(v.Fs[0].T, bvLit(uint64(k), 64))), Desc: fmt.Sprintf("%s[%d]", fn.Params[i].Name(), k)})
			}
		}
		if v.K == KPtr && v.Prov != nil && v.Prov.Space == "H" && v.Prov.Region != "meta" {
			for k := 0; k < 32; k++ {
				st.inputs = append(st.inputs, inputSym{Name: app("select", "H0", bvadd(v.T, bvLit(uint64(k), 64))), Desc: fmt.Sprintf("*%s[%d]", fn.Params[i].Name(), k)})
			}
		}
	}
	return st, args
}

// sepHeaderAddr is the address of the slice header ptr.field.
func sepHeaderAddr(ptr V, pt types.Type, field string) (string, error) {
	if ptr.K != KPtr {
		return "", fmt.Errorf("not a pointer")
	}
	p, ok := pt.Underlying().(*types.Pointer)
	if !ok {
		return "", fmt.Errorf("%s is not a pointer type", pt)
	}
	stt, ok := p.Elem().Underlying().(*types.Struct)
	if !ok {
		return "", fmt.Errorf("%s is not a pointer to a struct", pt)
	}
	for i := 0; i < stt.NumFields(); i++ {
		if stt.Field(i).Name() == field {
			if _, ok := stt.Field(i).Type().Underlying().(*types.Slice); !ok {
				return "", fmt.Errorf("field %s is not a slice", field)
			}
			return bvadd(ptr.T, bvLit(uint64(fieldOffset(stt, i)), 64)), nil
		}
	}
	return "", fmt.Errorf("no field %s", field)
}

func (x *Exec) contractEnv(st *State, args []V, entryMem map[string]*MemVer) *CEnv {
	vars := map[string]V{}
	x.bindParams(vars, x.fn, args)
	return &CEnv{st: st, oldMem: entryMem, vars: vars, tparam: x.tparam, fn: x.key}
}

// analyze generates every obligation of the function under contract.
func (x *Exec) analyze() (err error) {
	defer func() {
		if r := recover(); r != nil {
			if u, ok := r.(unsupported); ok {
				err = fmt.Errorf("outside subset: %s", u.msg)
				return
			}
			panic(r)
		}
	}()
	con := x.con
	st, args := x.entryState()
	entryMem := snapshotMem(st)
	env := x.contractEnv(st, args, entryMem)
	for _, a := range con.Assumes {
		t, e := env.evalBool(a.Expr)
		if e != nil {
			x.genFail(x.key+"#assume", "assume", con.Safety, "", e.Error())
			continue
		}
		st.assume(t)
		x.noteAssumption(x.key + ": assumed " + a.Text)
	}
	isInit := x.fn.Name() == "init" || strings.HasPrefix(x.fn.Name(), "init#")
	if isInit && x.fn.Pkg != nil {
		// the initialiser is analysed for its first (and only effective) run
		if g, ok := x.fn.Pkg.Members["init$guard"].(*ssa.Global); ok {
			a := x.globalAddr(g)
			st.assume(eq(app("select", "G0", a.T), bvLit(0, 8)))
		}
	}
	if !isInit {
		used := x.referencedGlobals()
		for _, gc := range x.specs.Globals {
			if g := x.lookupGlobal(gc.Name); g == nil || !used[g] {
				continue
			}
			t, e := x.evalGlobalClause(st, gc, false)
			if e != nil {
				x.genFail(x.key+"#global."+gc.Name, "assume", con.Safety, "", e.Error())
				continue
			}
			st.assume(t)
		}
	}
	for _, g := range con.GhostDefs {
		t, e := env.evalBool(g.Expr)
		if e != nil {
			x.genFail(x.key+"#ghostdef", "assume", con.Safety, "", e.Error())
			continue
		}
		st.assume(t)
	}
	// Skolemise the quantified variables of this function's own post-conditions now and
	// harvest the arguments of sequence constructors as instantiation terms for the
	// quantified post-conditions of callees (engine-side instantiation keeps queries quantifier free).
	x.preSk = map[*CExpr]V{}
	var hclauses []*Clause
	hclauses = append(hclauses, con.GhostDefs...)
	hclauses = append(hclauses, con.Requires...)
	hclauses = append(hclauses, con.Ensures...)
	for _, en := range hclauses {
		henv := x.contractEnv(st, args, entryMem)
		henv.prove, henv.harvest, henv.skolems = true, true, x.preSk
		for _, n := range resultNames(x.fn.Signature) {
			if _, ok := henv.vars[n]; !ok {
				henv.vars[n] = V{} // results are unknown yet; harvesting tolerates failures
			}
		}
		x.harvestClause(henv, en.Expr)
	}
	// preconditions are assumed after the harvest, so that quantified ones are instantiated at the
	// witnesses of this function's own post-conditions (and again later at every new witness)
	for i, rq := range con.Requires {
		if e := st.assumeClause(env, rq.Expr); e != nil {
			x.genFail(fmt.Sprintf("%s#requires%d", x.key, i+1), "requires", con.Safety, "", e.Error())
			continue
		}
	}
	x.cover(st, x.key+"#cover.pre", "cover", con.Safety, x.posOf(x.fn.Pos()), "precondition and type invariants are satisfiable")
	for _, sn := range con.Stale {
		for i, n := range declParamNames(x.fn) {
			if n == sn && i < len(args) && args[i].K == KPtr {
				if st.stale == nil {
					st.stale = map[string]bool{}
				}
				st.stale[args[i].T] = true
			}
		}
	}
	x.structural()
	st.frames = nil
	outs := x.runFuncTop(st, args, entryMem)
	if len(outs) == 0 {
		x.warn("%s: no path reaches a return", x.key)
	}
	sig := x.fn.Signature
	rnames := resultNames(sig)
	for oi, o := range outs {
		env := x.contractEnv(o.st, args, entryMem)
		for i, n := range rnames {
			env.vars[n] = o.results[i]
		}
		if len(o.results) == 1 {
			env.vars["result"] = o.results[0]
		}
		x.pathID = oi + 1
		{
			x.cover(o.st, x.key+"#cover.return", "cover", con.Safety, x.posOf(x.fn.Pos()), "a return is reachable under the assumed callee contracts (canary: false is not provable)")
		}
		env.prove = true
		env.skolems = x.preSk
		// the function's own contract calls, most recent per callee: called_<name>, call_<name>_arg<i>, call_<name>_r<i>
		x.bindCallRecords(o.st, x.fn, env.vars, o.st.topCalls)
		for k, v := range o.st.exitVals {
			env.vars[k] = v
		}
		for n, v := range o.st.exitNames {
			if _, taken := env.vars[n]; !taken {
				env.vars[n] = v
			}
		}
		env.exitMem = o.st.exitMem
		// memory-resident locals (address-taken or escaping variables) by name, read in the final memory,
		// unless a parameter or result has that name
		for n, cell := range x.localCells(o.st, x.fn) {
			if _, taken := env.vars[n]; taken {
				continue
			}
			if env.cells == nil {
				env.cells = map[string]V{}
			}
			env.cells[n] = cell
		}
		for _, ld := range x.loopInfoFor(x.fn).list {
			if o.st.loopDone[ld.ordinal] {
				env.vars[fmt.Sprintf("loopdone_%d", ld.ordinal)] = vBool("true")
			} else {
				env.vars[fmt.Sprintf("loopdone_%d", ld.ordinal)] = vBool("false")
			}
		}
		// the witnesses chosen at entry for this function's quantified post-conditions join the pool
		// only now: every quantified assumption made on the path (preconditions, callee post-conditions,
		// loop invariants) is instantiated at them here, and no proof along the way carried them
		for qe, sk := range x.preSk {
			if sk.K == KBV && qe != nil {
				o.st.addPool(sk.W, sk.T)
			}
		}
		for i, en := range con.Ensures {
			name := fmt.Sprintf("%s#ensures%d", x.key, i+1)
			if en.Assumed {
				x.noteAssumption(x.key + ": assumed post-condition (not proved on the body): " + en.Text)
				continue
			}
			s2 := o.st
			t, e := env.evalBool(en.Expr)
			if e != nil {
				x.genFail(name, "ensures", en.Tags, x.posOf(x.fn.Pos()), e.Error())
				continue
			}
			x.oblige(s2, name, "ensures", en.Tags, t, x.posOf(x.fn.Pos()), en.Text)
		}
		if con.Appends != nil {
			x.proveAppends(o.st, env, con, o.results[0])
		}
		if isInit {
			for _, gc := range x.specs.Globals {
				if g := x.lookupGlobal(gc.Name); g == nil || g.Pkg != x.fn.Pkg {
					continue
				}
				t, e := x.evalGlobalClause(o.st, gc, true)
				name := x.key + "#global." + gc.Name
				if e != nil {
					x.genFail(name, "ensures", gc.Tags, x.posOf(x.fn.Pos()), e.Error())
					continue
				}
				x.oblige(o.st, name, "ensures", gc.Tags, t, x.posOf(x.fn.Pos()), "package initialisation establishes: "+gc.Text)
			}
		}
		if con.AssignsSet {
			x.proveAssigns(o.st, env, con, args, entryMem)
		}
	}
	return nil
}

func (x *Exec) runFuncTop(st *State, args []V, entryMem map[string]*MemVer) []Outcome {
	fn := x.fn
	fr := &Frame{fn: fn, depth: 0, visits: map[*ssa.BasicBlock]int{}, loopRec: map[*ssa.BasicBlock]*loopRec{}, names: map[types.Object]V{}, args: args, entryMem: entryMem}
	st.frames = append(st.frames, fr)
	for i, p := range fn.Params {
		st.env[p] = args[i]
	}
	for _, fv := range fn.FreeVars {
		// captured variables: unconstrained cells in the heap
		st.env[fv] = st.symbolic(fv.Type(), "free_"+fv.Name(), func(ls leafShape) *Prov { return &Prov{Space: "H", Region: "captured"} }, false)
	}
	if len(fn.Blocks) == 0 {
		unsup("function %s has no body", fn)
	}
	return x.runBlock(st, fn.Blocks[0], nil)
}

func (x *Exec) proveAppends(st *State, env *CEnv, con *Contract, res V) {
	ap := con.Appends
	data, ok := env.vars[ap.Param]
	base := x.key + "#appends"
	pos := x.posOf(x.fn.Pos())
	if !ok || data.K != KTuple || len(data.Fs) != 3 {
		x.genFail(base, "appends", ap.Tags, pos, "appends: unknown slice parameter "+ap.Param)
		return
	}
	env.inOld = true
	sv, err := env.evalAny(ap.Seq)
	env.inOld = false
	if err != nil {
		x.genFail(base, "appends", ap.Tags, pos, err.Error())
		return
	}
	env.inOld = true
	seq := env.toSeq(sv)
	env.inOld = false
	dp, dl := data.Fs[0], data.Fs[1].T
	rp, rl, rc := res.Fs[0], res.Fs[1].T, res.Fs[2].T
	x.oblige(st, base+".len", "appends", ap.Tags, eq(rl, bvadd(dl, seq.Len)), pos, "len(result) == len(old("+ap.Param+")) + len("+ap.Seq.String()+")")
	x.oblige(st, base+".cap", "appends", ap.Tags, and(app("bvsle", rl, rc)), pos, "len(result) <= cap(result)")
	old := env.oldMem[spaceOf(dp, "B")]
	j := st.freshConst("sk_pre", sortBV(64))
	old.facts(st, bvadd(dp.T, j))
	x.oblige(st, base+".prefix", "appends", ap.Tags,
		implies(app("bvult", j, dl), eq(st.load8(spaceOf(rp, "B"), bvadd(rp.T, j)), app("select", old.term, bvadd(dp.T, j)))), pos,
		"result[j] == old("+ap.Param+")[j] for j < len(old("+ap.Param+"))")
	x.proveSuffix(st, rp, seq, "true", dl, base+".suffix", ap, pos)
	// the result is the caller's buffer or fresh memory, never memory reachable from the value
	reg := "fresh"
	if rp.Prov != nil {
		reg = rp.Prov.Region
	}
	okReg := reg == "in:"+ap.Param || strings.HasPrefix(reg, "fresh")
	goal := "false"
	if okReg {
		goal = "true"
	}
	x.oblige(st, base+".region", "appends", ap.Tags, goal, pos, "result memory is "+ap.Param+"'s buffer or fresh (region "+reg+")")
}

func (x *Exec) proveAssigns(st *State, env *CEnv, con *Contract, args []V, entryMem map[string]*MemVer) {
	pos := x.posOf(x.fn.Pos())
	allowed := map[string]bool{}
	for _, a := range con.Assigns {
		allowed[a] = true
	}
	for _, sp := range []string{"H", "G"} {
		if allowed[sp] {
			continue
		}
		name := x.key + "#assigns." + sp
		if !st.modified[sp] {
			x.oblige(st, name, "frame", con.AssignTags, "true", pos, "no store to "+sp)
			continue
		}
		// modified: every address outside the declared writes keeps its entry value
		a := st.freshConst("sk_addr", sortBV(64))
		var outside []string
		for _, w := range con.Writes {
			pv, ok := env.vars[w.Ptr]
			if !ok || pv.K != KPtr || spaceOf(pv, "H") != sp {
				continue
			}
			n, err := env.evalAny(w.N)
			if err != nil {
				continue
			}
			n = coerce(n, 64, false)
			outside = append(outside, not(and(app("bvule", pv.T, a), app("bvult", a, bvadd(pv.T, n.T)))))
		}
		if brk, ok := x.entryBrk(sp); ok {
			outside = append(outside, app("bvult", a, brk))
		}
		old := entryMem[sp]
		old.facts(st, a)
		goal := implies(and(outside...), eq(st.load8(sp, a), app("select", old.term, a)))
		x.oblige(st, name, "frame", con.AssignTags, goal, pos, "memory "+sp+" is unchanged outside the declared writes")
	}
}

func (x *Exec) entryBrk(sp string) (string, bool) {
	if sp == "H" || sp == "B" {
		return bvLit(maxAddr, 64), true
	}
	return "", false
}

// harvestClause Skolemises the leading foralls of a clause and evaluates the
// arguments of venc(...) occurring in it, tolerating sub-expressions that
// cannot be evaluated before the function has run (results).
func (x *Exec) harvestClause(env *CEnv, e *CExpr) {
	for e != nil && e.Op == "forall" {
		w, signed, ok := typeByName(e.VTyp, env.tparam)
		if !ok {
			return
		}
		name := env.st.freshConst("sk_"+e.Var, sortBV(w))
		v := vBV(name, w, signed)
		env.skolems[e] = v
		env.vars[e.Var] = v
		e = e.Args[0]
	}
	var walk func(e *CExpr)
	walk = func(e *CExpr) {
		if e == nil {
			return
		}
		if e.Op == "forall" || e.Op == "exists" {
			return
		}
		if e.Op == "call" && e.Tok == "venc" && len(e.Args) == 1 {
			var sub func(a *CExpr)
			sub = func(a *CExpr) {
				func() {
					defer func() { recover() }()
					v := env.eval(a)
					if v.K == KPtr {
						v = vBV(v.T, 64, false)
					}
					if v.K == KBV && v.W == 0 {
						return
					}
					if v.K == KBV && v.W > 0 {
						env.st.addPool(v.W, env.st.define("inst", sortBV(v.W), v.T))
					}
				}()
				if a.Op == "call" {
					for _, b := range a.Args {
						sub(b)
					}
				}
			}
			sub(e.Args[0])
		}
		for _, a := range e.Args {
			walk(a)
		}
	}
	walk(e)
}

// structural discharges the clauses that are decided on the SSA text alone.
func (x *Exec) structural() {
	con := x.con
	pos := x.posOf(x.fn.Pos())
	if con.NoGlobals != nil {
		seen := map[*ssa.Function]bool{}
		var bad []string
		var walk func(fn *ssa.Function)
		walk = func(fn *ssa.Function) {
			if seen[fn] || len(fn.Blocks) == 0 {
				return
			}
			seen[fn] = true
			for _, b := range fn.Blocks {
				for _, in := range b.Instrs {
					for _, op := range in.Operands(nil) {
						if g, ok := (*op).(*ssa.Global); ok && g.Pkg != nil && strings.HasPrefix(g.Pkg.Pkg.Path(), modPrefix) {
							bad = append(bad, g.Name()+" in "+fnKey(fn))
						}
					}
					if c, ok := in.(ssa.CallInstruction); ok {
						if callee := c.Common().StaticCallee(); callee != nil && callee.Pkg != nil && strings.HasPrefix(callee.Pkg.Pkg.Path(), modPrefix) {
							if cc, _ := x.contractFor(callee); cc == nil || cc.Inline {
								walk(callee)
							}
						}
					}
				}
			}
		}
		walk(x.fn)
		goal := "true"
		text := "the function and the helpers it inlines reference no package-level variable of the module"
		if len(bad) > 0 {
			goal = "false"
			text += " (references: " + strings.Join(bad, ", ") + ")"
		}
		x.oblige(&State{x: x}, x.key+"#noglobals", "frame", con.NoGlobals, goal, pos, text)
	}
	for _, nr := range con.NoReads {
		parts := strings.SplitN(nr.Callee, ".", 2)
		if len(parts) != 2 {
			x.genFail(x.key+"#noreads", "frame", nr.Tags, pos, "noreads needs Type.field")
			continue
		}
		seen := map[*ssa.Function]bool{}
		var bad []string
		var walk func(fn *ssa.Function)
		check := func(t types.Type, idx int, fn *ssa.Function) {
			if p, ok := t.Underlying().(*types.Pointer); ok {
				t = p.Elem()
			}
			named, _ := t.(*types.Named)
			st, ok := t.Underlying().(*types.Struct)
			if !ok || named == nil || named.Obj().Name() != parts[0] {
				return
			}
			if idx < st.NumFields() && st.Field(idx).Name() == parts[1] {
				bad = append(bad, fnKey(fn))
			}
		}
		walk = func(fn *ssa.Function) {
			if seen[fn] || len(fn.Blocks) == 0 {
				return
			}
			seen[fn] = true
			for _, b := range fn.Blocks {
				for _, in := range b.Instrs {
					switch i := in.(type) {
					case *ssa.FieldAddr:
						check(i.X.Type(), i.Field, fn)
					case *ssa.Field:
						check(i.X.Type(), i.Field, fn)
					case ssa.CallInstruction:
						if callee := i.Common().StaticCallee(); callee != nil && callee.Pkg != nil && strings.HasPrefix(callee.Pkg.Pkg.Path(), modPrefix) {
							if cc, _ := x.contractFor(callee); cc == nil || cc.Inline {
								walk(callee)
							}
						}
					}
				}
			}
		}
		walk(x.fn)
		goal, text := "true", "the function never reads "+nr.Callee
		if len(bad) > 0 {
			goal = "false"
			text += " (read in " + strings.Join(bad, ", ") + ")"
		}
		x.oblige(&State{x: x}, x.key+"#noreads."+nr.Callee, "frame", nr.Tags, goal, pos, text)
	}
	if d := con.Delegates; d != nil {
		ok, why := x.checkDelegates(d)
		goal := "true"
		if !ok {
			goal = "false"
		}
		x.oblige(&State{x: x}, x.key+"#delegates", "frame", d.Tags, goal, pos, "forwards its parameters unchanged to "+d.Callee+" on "+d.Global+" and returns its results"+why)
	}
}

func (x *Exec) checkDelegates(d *DelegateSpec) (bool, string) {
	fn := x.fn
	if len(fn.Blocks) != 1 {
		return false, " (body is not a single block)"
	}
	var call *ssa.Call
	var ret *ssa.Return
	for _, in := range fn.Blocks[0].Instrs {
		switch i := in.(type) {
		case *ssa.Call:
			if call != nil {
				return false, " (more than one call)"
			}
			call = i
		case *ssa.Return:
			ret = i
		case *ssa.Extract, *ssa.DebugRef:
		default:
			return false, fmt.Sprintf(" (unexpected instruction %T)", in)
		}
	}
	if call == nil || ret == nil {
		return false, " (no call or no return)"
	}
	callee := call.Common().StaticCallee()
	if callee == nil || fnKey(callee) != d.Callee {
		return false, " (calls something else)"
	}
	args := call.Common().Args
	if len(args) != len(fn.Params)+1 {
		return false, " (argument count)"
	}
	if g, ok := args[0].(*ssa.Global); !ok || g.Name() != d.Global {
		return false, " (receiver is not " + d.Global + ")"
	}
	for i, p := range fn.Params {
		if args[i+1] != ssa.Value(p) {
			return false, fmt.Sprintf(" (argument %d is not parameter %s)", i, p.Name())
		}
	}
	n := fn.Signature.Results().Len()
	if len(ret.Results) != n {
		return false, " (result count)"
	}
	for i, r := range ret.Results {
		if n == 1 {
			if r != ssa.Value(call) {
				return false, " (returns something else)"
			}
			continue
		}
		ex, ok := r.(*ssa.Extract)
		if !ok || ex.Tuple != ssa.Value(call) || ex.Index != i {
			return false, " (returns something else)"
		}
	}
	return true, ""
}

// proveSuffix generates the obligations "seq occurs in the result at offset off" under guard,
// splitting conditionals and concatenations so that every query stays small.
func (x *Exec) proveSuffix(st *State, rp V, seq *Seq, guard, off, name string, ap *AppendSpec, pos string) {
	switch {
	case seq.Then != nil:
		x.proveSuffix(st, rp, seq.Then, and(guard, seq.Cond), off, name+".then", ap, pos)
		x.proveSuffix(st, rp, seq.Else, and(guard, not(seq.Cond)), off, name+".else", ap, pos)
	case len(seq.Parts) > 1 && hasCondPart(seq):
		// distribute the conditional over the concatenation so that every offset below is unconditional
		for pi, part := range seq.Parts {
			if part.Then == nil {
				continue
			}
			mk := func(repl *Seq) *Seq {
				ps := append([]*Seq(nil), seq.Parts[:pi]...)
				if len(repl.Parts) > 0 {
					ps = append(ps, repl.Parts...)
				} else {
					ps = append(ps, repl)
				}
				ps = append(ps, seq.Parts[pi+1:]...)
				return &Seq{Parts: ps}
			}
			x.proveSuffix(st, rp, mk(part.Then), and(guard, part.Cond), off, name+".then", ap, pos)
			x.proveSuffix(st, rp, mk(part.Else), and(guard, not(part.Cond)), off, name+".else", ap, pos)
			break
		}
	case len(seq.Parts) > 1:
		cur := off
		for pi, part := range seq.Parts {
			poff := st.define("poff", sortBV(64), cur)
			x.proveSuffix(st, rp, part, guard, poff, fmt.Sprintf("%s.part%d", name, pi+1), ap, pos)
			cur = bvadd(poff, part.Len)
		}
	case seq.Max > 0 && seq.Max <= 24:
		st = st.fork() // the memory facts instantiated for this obligation stay out of the other queries
		cs := []string{app("bvule", seq.Len, bvLit(uint64(seq.Max), 64))}
		for i := 0; i < seq.Max; i++ {
			k := bvLit(uint64(i), 64)
			cs = append(cs, implies(app("bvult", k, seq.Len), eq(st.load8(spaceOf(rp, "B"), bvadd(rp.T, bvadd(off, k))), seq.Byte(k))))
		}
		x.oblige(st, name, "appends", ap.Tags, implies(guard, and(cs...)), pos, "this part of ("+ap.Seq.String()+") appears at its offset in result")
	default:
		st = st.fork()
		k := st.freshConst("sk_suf", sortBV(64))
		x.oblige(st, name, "appends", ap.Tags,
			implies(and(guard, app("bvult", k, seq.Len)), eq(st.load8(spaceOf(rp, "B"), bvadd(rp.T, bvadd(off, k))), seq.Byte(k))), pos,
			"this part of ("+ap.Seq.String()+") appears at its offset in result")
	}
}

func hasCondPart(s *Seq) bool {
	for _, p := range s.Parts {
		if p.Then != nil {
			return true
		}
	}
	return false
}

// referencedGlobals lists the package-level variables the function, or any
// in-repo function reachable from it through static calls, refers to.
func (x *Exec) referencedGlobals() map[*ssa.Global]bool {
	out := map[*ssa.Global]bool{}
	seen := map[*ssa.Function]bool{}
	var walk func(fn *ssa.Function, depth int)
	walk = func(fn *ssa.Function, depth int) {
		if seen[fn] || len(fn.Blocks) == 0 || depth > 6 {
			return
		}
		seen[fn] = true
		for _, b := range fn.Blocks {
			for _, in := range b.Instrs {
				for _, op := range in.Operands(nil) {
					if g, ok := (*op).(*ssa.Global); ok {
						out[g] = true
					}
				}
				if c, ok := in.(ssa.CallInstruction); ok {
					if callee := c.Common().StaticCallee(); callee != nil && callee.Pkg != nil && strings.HasPrefix(callee.Pkg.Pkg.Path(), modPrefix) {
						walk(callee, depth+1)
					}
				}
			}
		}
	}
	walk(x.fn, 0)
	return out
}
