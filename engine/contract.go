package main

import (
	"bufio"
	"fmt"
	"os"
	"path/filepath"
	"regexp"
	"sort"
	"strconv"
	"strings"
)

type Clause struct {
	Assumed bool   // a post-condition assumed by callers and not proved on the body (assumedensures)
	Local   bool   // proved for the function itself but not assumed by its callers (keeps callers' queries small)
	Kind    string // requires, ensures, assume, invariant, decreases, lemma
	Name    string // lemma name
	Tags    []string
	Text    string
	Expr    *CExpr
	File    string
	Line    int
}

type LoopSpec struct {
	GhostDefs  []*Clause
	Unroll     int
	Invariants []*Clause
	Entries    []*Clause // proved when the loop is entered (an assertion in front of the loop; not assumed, not an invariant)
	Steps      []*Clause // proved at the back edge: relate this iteration's calls to the progress made
	Assumes    []*Clause
	Decreases  *Clause
}

type AppendSpec struct {
	Tags  []string
	Param string
	Seq   *CExpr
	Text  string
	File  string
	Line  int
}

// DelegateSpec: the function is a plain forwarding call of Callee on the
// package-level variable Global with its own parameters, returning its results.
type DelegateSpec struct {
	Tags   []string
	Callee string
	Global string
}

type SepSpec struct {
	Param, Field string
}

type Macro struct {
	Params []string
	Body   *CExpr
}

type WriteSpec struct {
	Ptr  string
	N    *CExpr
	Tags []string
}

type Contract struct {
	Func       string
	File       string
	Line       int
	Safety     []string
	Inline     bool
	Trusted    bool // contract is assumed, body not checked (externs, interface laws)
	Requires   []*Clause
	Assumes    []*Clause
	GhostDefs  []*Clause
	Ensures    []*Clause
	Appends    *AppendSpec
	Assigns    []string // memory spaces havocked by a call ("H","B"); empty => nothing
	AssignsSet bool
	AssignTags []string
	Writes     []*WriteSpec
	AllocBound *Clause
	AllocSite  *Clause
	NoReads    []*DelegateSpec // Callee = "Type.field": the function never reads that struct field
	NoGlobals  []string        // tags: the function (and what it inlines) references no package-level variable
	Delegates  *DelegateSpec
	Stale      []string        // results / parameters whose pointee holds stale (history dependent) contents
	Cleans     []string        // parameters whose pointee is completely overwritten
	NeedsClean []*DelegateSpec // Callee = parameter name: the pointee must not be stale at the call
	AtCalls    []*Clause       // Name = callee key; expression over the caller's names and arg0..argN, proved at every such call
	MapInv     *Clause         // invariant over (key, val) of the maps this function touches: assumed on lookup/range, proved on update
	Mutable    bool            // the receiver is mutable (not codec metadata)
	Separate   []*SepSpec      // slice fields whose backing array is a region of its own
	UseLocals  bool            // assume the local (value-level) clauses of callees too
	Trust      []string        // obligation kinds assumed instead of proved in this function (reported)
	Keeps      []*WriteSpec
	Loops      map[int]*LoopSpec
	Fresh      []string // result names that are fresh allocations
	Pure       bool     // result is an uninterpreted function of the arguments (and memory if MemDep)
	MemDep     []string
	Used       bool
}

type SpecFn struct {
	Name   string
	Params []SpecParam
	Ret    SpecParam
	SMT    string
	Mem    []string // implicit memory arguments appended (spaces)
}

type SpecParam struct {
	Name string
	Typ  string
}

type Lemma struct {
	Clause
}

type Specs struct {
	Contracts map[string]*Contract
	SpecFns   map[string]*SpecFn
	Macros    map[string]*Macro // macro name(params) expr: abbreviations usable in every clause
	Lemmas    []*Clause
	Prelude   string
	Globals   []*Clause // global invariants (assumed everywhere, proved for init)
}

var clauseRe = regexp.MustCompile(`^([a-z]+)(\[[A-Za-z0-9, ]*\])?\s*(.*)$`)

func parseTags(s string) []string {
	s = strings.Trim(s, "[]")
	var out []string
	for _, t := range strings.Split(s, ",") {
		t = strings.TrimSpace(t)
		if t != "" {
			out = append(out, t)
		}
	}
	return out
}

// loadSpecs reads /verif/spec/*.spec, /verif/spec/*.smt2 and the //@ lines of
// every contracts_verif.go under repo.
func loadSpecs(specDir, repo string) (*Specs, error) {
	sp := &Specs{Contracts: map[string]*Contract{}, SpecFns: map[string]*SpecFn{}}
	smts, _ := filepath.Glob(filepath.Join(specDir, "*.smt2"))
	sort.Strings(smts)
	for _, f := range smts {
		b, err := os.ReadFile(f)
		if err != nil {
			return nil, err
		}
		sp.Prelude += string(b) + "\n"
	}
	files, _ := filepath.Glob(filepath.Join(specDir, "*.spec"))
	sort.Strings(files)
	for _, f := range files {
		if err := sp.parseFile(f, false); err != nil {
			return nil, err
		}
	}
	var cfiles []string
	filepath.Walk(repo, func(p string, info os.FileInfo, err error) error {
		if err == nil && !info.IsDir() && info.Name() == "contracts_verif.go" {
			cfiles = append(cfiles, p)
		}
		return nil
	})
	sort.Strings(cfiles)
	for _, f := range cfiles {
		if err := sp.parseFile(f, true); err != nil {
			return nil, err
		}
	}
	return sp, nil
}

func (sp *Specs) parseFile(path string, goFile bool) error {
	fh, err := os.Open(path)
	if err != nil {
		return err
	}
	defer fh.Close()
	sc := bufio.NewScanner(fh)
	sc.Buffer(make([]byte, 1<<20), 1<<20)
	var cur *Contract
	lineNo := 0
	var pending string
	pendingLine := 0
	for sc.Scan() {
		lineNo++
		line := sc.Text()
		if goFile {
			t := strings.TrimSpace(line)
			if !strings.HasPrefix(t, "//@") {
				continue
			}
			line = strings.TrimPrefix(t, "//@")
		}
		if i := strings.Index(line, " #"); i >= 0 && !strings.Contains(line[:i], "\"") {
			line = line[:i]
		}
		line = strings.TrimSpace(line)
		if strings.HasPrefix(line, "#") {
			continue
		}
		if pending != "" {
			line = pending + " " + line
			pending = ""
		} else {
			pendingLine = lineNo
		}
		if strings.HasSuffix(line, "\\") {
			pending = strings.TrimSuffix(line, "\\")
			continue
		}
		if line == "" {
			continue
		}
		if err := sp.parseLine(&cur, line, path, pendingLine); err != nil {
			return fmt.Errorf("%s:%d: %v", path, pendingLine, err)
		}
	}
	return sc.Err()
}

func (sp *Specs) parseLine(cur **Contract, line, file string, ln int) error {
	m := clauseRe.FindStringSubmatch(line)
	if m == nil {
		return fmt.Errorf("cannot parse %q", line)
	}
	kw, tags, rest := m[1], parseTags(m[2]), strings.TrimSpace(m[3])
	mk := func(kind, text string) (*Clause, error) {
		e, err := parseCExpr(text)
		if err != nil {
			return nil, err
		}
		return &Clause{Kind: kind, Tags: tags, Text: text, Expr: e, File: file, Line: ln}, nil
	}
	switch kw {
	case "func":
		if _, dup := sp.Contracts[rest]; dup {
			return fmt.Errorf("duplicate contract for %s", rest)
		}
		c := &Contract{Func: rest, File: file, Line: ln, Loops: map[int]*LoopSpec{}}
		sp.Contracts[rest] = c
		*cur = c
		return nil
	case "macro":
		// macro name(a, b) <expression over a, b>
		re := regexp.MustCompile(`^(\w+)\(([^)]*)\)\s+(.*)$`)
		mm := re.FindStringSubmatch(rest)
		if mm == nil {
			return fmt.Errorf("bad macro %q", rest)
		}
		body, err := parseCExpr(mm[3])
		if err != nil {
			return err
		}
		m := &Macro{Body: body}
		for _, p := range strings.Split(mm[2], ",") {
			if p = strings.TrimSpace(p); p != "" {
				m.Params = append(m.Params, p)
			}
		}
		if sp.Macros == nil {
			sp.Macros = map[string]*Macro{}
		}
		sp.Macros[mm[1]] = m
		return nil
	case "specfn":
		// specfn name(a T, b U) R [mem H B]
		re := regexp.MustCompile(`^(\w+)\(([^)]*)\)\s*(\w+)(?:\s+mem\s+(.*))?$`)
		mm := re.FindStringSubmatch(rest)
		if mm == nil {
			return fmt.Errorf("bad specfn %q", rest)
		}
		fn := &SpecFn{Name: mm[1], SMT: mm[1], Ret: SpecParam{Typ: mm[3]}}
		for _, p := range strings.Split(mm[2], ",") {
			p = strings.TrimSpace(p)
			if p == "" {
				continue
			}
			parts := strings.Fields(p)
			if len(parts) != 2 {
				return fmt.Errorf("bad specfn param %q", p)
			}
			fn.Params = append(fn.Params, SpecParam{parts[0], parts[1]})
		}
		if mm[4] != "" {
			fn.Mem = strings.Fields(mm[4])
		}
		sp.SpecFns[fn.Name] = fn
		return nil
	case "lemma":
		i := strings.Index(rest, ":")
		if i < 0 {
			return fmt.Errorf("lemma needs a name and ':'")
		}
		c, err := mk("lemma", strings.TrimSpace(rest[i+1:]))
		if err != nil {
			return err
		}
		c.Name = strings.TrimSpace(rest[:i])
		if j := strings.Index(c.Name, "["); j >= 0 {
			c.Tags = parseTags(c.Name[j:])
			c.Name = c.Name[:j]
		}
		sp.Lemmas = append(sp.Lemmas, c)
		return nil
	case "global":
		parts := strings.SplitN(rest, " ", 2)
		if len(parts) != 2 {
			return fmt.Errorf("global <pkg.name> <invariant over g>")
		}
		text := strings.TrimSpace(parts[1])
		var gtags []string
		if strings.HasPrefix(text, "[") {
			if j := strings.Index(text, "]"); j > 0 {
				gtags = parseTags(text[:j+1])
				text = strings.TrimSpace(text[j+1:])
			}
		}
		c, err := mk("global", text)
		if err != nil {
			return err
		}
		c.Tags = gtags
		c.Name = parts[0]
		sp.Globals = append(sp.Globals, c)
		return nil
	}
	c := *cur
	if c == nil {
		return fmt.Errorf("clause %q outside a func block", kw)
	}
	switch kw {
	case "safety":
		c.Safety = append(c.Safety, strings.Fields(rest)...)
	case "inline":
		c.Inline = true
	case "trusted":
		c.Trusted = true
	case "pure":
		c.Pure = true
		c.MemDep = strings.Fields(rest)
	case "fresh":
		c.Fresh = append(c.Fresh, strings.Fields(rest)...)
	case "requires", "ensures", "assume", "ghostdef", "localensures", "assumedensures":
		isLocal := kw == "localensures"
		// assumedensures: a post-condition about what the environment stored earlier (e.g. what was registered);
		// it is assumed by callers, not proved on the body, and listed among the assumptions
		isAssumed := kw == "assumedensures"
		if isLocal || isAssumed {
			kw = "ensures"
		}
		cl, err := mk(kw, rest)
		if err != nil {
			return err
		}
		cl.Local = isLocal
		cl.Assumed = isAssumed
		switch kw {
		case "requires":
			c.Requires = append(c.Requires, cl)
		case "ensures":
			c.Ensures = append(c.Ensures, cl)
		case "assume":
			c.Assumes = append(c.Assumes, cl)
		case "ghostdef":
			if err := checkGhostDef(cl.Expr); err != nil {
				return err
			}
			c.GhostDefs = append(c.GhostDefs, cl)
		}
	case "appends":
		parts := strings.SplitN(rest, " ", 2)
		if len(parts) != 2 {
			return fmt.Errorf("appends needs a parameter and a sequence expression")
		}
		e, err := parseCExpr(parts[1])
		if err != nil {
			return err
		}
		c.Appends = &AppendSpec{Tags: tags, Param: parts[0], Seq: e, Text: rest, File: file, Line: ln}
	case "assigns":
		c.AssignsSet = true
		c.AssignTags = tags
		if rest != "nothing" {
			c.Assigns = append(c.Assigns, strings.Fields(rest)...)
		}
	case "writes":
		parts := strings.SplitN(rest, " ", 2)
		if len(parts) != 2 {
			return fmt.Errorf("writes needs a pointer parameter and a byte count")
		}
		e, err := parseCExpr(parts[1])
		if err != nil {
			return err
		}
		c.Writes = append(c.Writes, &WriteSpec{Ptr: parts[0], N: e, Tags: tags})
	case "noreads":
		c.NoReads = append(c.NoReads, &DelegateSpec{Tags: tags, Callee: strings.TrimSpace(rest)})
	case "noglobals":
		c.NoGlobals = tags
		if len(tags) == 0 {
			c.NoGlobals = []string{}
		}
	case "delegates":
		f := strings.Fields(rest)
		if len(f) != 2 {
			return fmt.Errorf("delegates <callee key> <global>")
		}
		c.Delegates = &DelegateSpec{Tags: tags, Callee: f[0], Global: f[1]}
	case "stale":
		c.Stale = append(c.Stale, strings.Fields(rest)...)
	case "cleans":
		c.Cleans = append(c.Cleans, strings.Fields(rest)...)
	case "needsclean":
		for _, f := range strings.Fields(rest) {
			c.NeedsClean = append(c.NeedsClean, &DelegateSpec{Tags: tags, Callee: f})
		}
	case "atcall":
		parts := strings.SplitN(rest, " ", 2)
		if len(parts) != 2 {
			return fmt.Errorf("atcall <callee> <expr>")
		}
		text := strings.TrimSpace(parts[1])
		var atags []string
		if strings.HasPrefix(text, "[") {
			if j := strings.Index(text, "]"); j > 0 {
				atags = parseTags(text[:j+1])
				text = strings.TrimSpace(text[j+1:])
			}
		}
		cl, err := mk("atcall", text)
		if err != nil {
			return err
		}
		cl.Tags = atags
		cl.Name = parts[0]
		c.AtCalls = append(c.AtCalls, cl)
	case "mapinvariant":
		cl, err := mk("mapinvariant", rest)
		if err != nil {
			return err
		}
		c.MapInv = cl
	case "uselocals":
		c.UseLocals = true
	case "mutable":
		// the receiver is an ordinary mutable object, not immutable codec metadata
		c.Mutable = true
	case "separate":
		// separate <param>.<field>: the array behind this slice field is an object of its own
		// (it overlaps neither *param nor any other object); modelled as a memory region of its own
		pf := strings.SplitN(strings.TrimSpace(rest), ".", 2)
		if len(pf) != 2 || pf[0] == "" || pf[1] == "" {
			return fmt.Errorf("separate needs <param>.<field>")
		}
		c.Separate = append(c.Separate, &SepSpec{Param: pf[0], Field: pf[1]})
	case "trust":
		c.Trust = append(c.Trust, strings.Fields(rest)...)
	case "allocsite":
		cl, err := mk("allocsite", rest)
		if err != nil {
			return err
		}
		c.AllocSite = cl
	case "keeps":
		parts := strings.SplitN(rest, " ", 2)
		if len(parts) != 2 {
			return fmt.Errorf("keeps needs a pointer parameter and a byte count")
		}
		e, err := parseCExpr(parts[1])
		if err != nil {
			return err
		}
		c.Keeps = append(c.Keeps, &WriteSpec{Ptr: parts[0], N: e, Tags: tags})
	case "allocbound":
		cl, err := mk("allocbound", rest)
		if err != nil {
			return err
		}
		c.AllocBound = cl
	case "loop":
		parts := strings.SplitN(rest, " ", 3)
		if len(parts) < 3 {
			return fmt.Errorf("loop clause needs: loop <k> <kind> <arg>")
		}
		k, err := strconv.Atoi(parts[0])
		if err != nil {
			return err
		}
		ls := c.Loops[k]
		if ls == nil {
			ls = &LoopSpec{}
			c.Loops[k] = ls
		}
		mm := clauseRe.FindStringSubmatch(parts[1] + " " + parts[2])
		if mm == nil {
			return fmt.Errorf("bad loop clause")
		}
		lkw, ltags, lrest := mm[1], parseTags(mm[2]), strings.TrimSpace(mm[3])
		switch lkw {
		case "unroll":
			n, err := strconv.Atoi(lrest)
			if err != nil {
				return err
			}
			ls.Unroll = n
		case "invariant", "decreases", "assume", "ghostdef", "step", "entry":
			e, err := parseCExpr(lrest)
			if err != nil {
				return err
			}
			cl := &Clause{Kind: lkw, Tags: ltags, Text: lrest, Expr: e, File: file, Line: ln}
			switch lkw {
			case "invariant":
				ls.Invariants = append(ls.Invariants, cl)
			case "step":
				ls.Steps = append(ls.Steps, cl)
			case "entry":
				ls.Entries = append(ls.Entries, cl)
			case "assume":
				ls.Assumes = append(ls.Assumes, cl)
			case "ghostdef":
				if err := checkGhostDef(e); err != nil {
					return err
				}
				ls.GhostDefs = append(ls.GhostDefs, cl)
			case "decreases":
				ls.Decreases = cl
			}
		default:
			return fmt.Errorf("unknown loop clause %q", lkw)
		}
	default:
		return fmt.Errorf("unknown clause keyword %q", kw)
	}
	return nil
}

// checkGhostDef accepts only definitional ghost assumptions: implications
// guarded by a ghost boolean constant G(), which are satisfiable in every
// program state by G() = false and therefore never restrict real behaviour.
func checkGhostDef(e *CExpr) error {
	if e.Op != "bin" || e.Tok != "==>" {
		return fmt.Errorf("ghostdef must be an implication guarded by a ghost constant")
	}
	g := e.Args[0]
	for g.Op == "bin" && g.Tok == "&&" {
		g = g.Args[0]
	}
	if g.Op != "call" || len(g.Args) != 0 || !strings.HasPrefix(g.Tok, "wf") {
		return fmt.Errorf("ghostdef guard must start with a ghost constant wf...()")
	}
	return nil
}
