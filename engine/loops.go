package main

import (
	"go/token"
	"sort"

	"golang.org/x/tools/go/ssa"
)

type loopDesc struct {
	head    *ssa.BasicBlock
	body    map[*ssa.BasicBlock]bool // includes head
	ordinal int
	pos     token.Pos
}

type loopInfo struct {
	byHead map[*ssa.BasicBlock]*loopDesc
	list   []*loopDesc
}

// findLoops detects natural loops (back edge b->h with h dominating b) and
// numbers them by source position of the loop header.
func findLoops(fn *ssa.Function) *loopInfo {
	li := &loopInfo{byHead: map[*ssa.BasicBlock]*loopDesc{}}
	for _, b := range fn.Blocks {
		for _, s := range b.Succs {
			if s.Dominates(b) {
				ld := li.byHead[s]
				if ld == nil {
					ld = &loopDesc{head: s, body: map[*ssa.BasicBlock]bool{s: true}}
					li.byHead[s] = ld
					li.list = append(li.list, ld)
				}
				// collect body: blocks that reach b without passing through s
				var stack []*ssa.BasicBlock
				if !ld.body[b] {
					ld.body[b] = true
					stack = append(stack, b)
				}
				for len(stack) > 0 {
					n := stack[len(stack)-1]
					stack = stack[:len(stack)-1]
					for _, p := range n.Preds {
						if !ld.body[p] {
							ld.body[p] = true
							stack = append(stack, p)
						}
					}
				}
			}
		}
	}
	for _, ld := range li.list {
		ld.pos = loopPos(ld)
	}
	sort.SliceStable(li.list, func(i, j int) bool {
		if li.list[i].pos != li.list[j].pos {
			return li.list[i].pos < li.list[j].pos
		}
		return li.list[i].head.Index < li.list[j].head.Index
	})
	for i, ld := range li.list {
		ld.ordinal = i + 1
	}
	return li
}

// loopPos is the smallest valid source position among the loop's instructions.
func loopPos(ld *loopDesc) token.Pos {
	best := token.NoPos
	for b := range ld.body {
		for _, in := range b.Instrs {
			p := in.Pos()
			if _, isDbg := in.(*ssa.DebugRef); isDbg {
				continue
			}
			if _, isPhi := in.(*ssa.Phi); isPhi {
				continue // a phi carries the position of its variable's declaration, which precedes the loop
			}
			if p.IsValid() && (best == token.NoPos || p < best) {
				best = p
			}
		}
	}
	return best
}
