package main

import (
	"bytes"
	"context"
	"encoding/json"
	"fmt"
	"os"
	"os/exec"
	"path/filepath"
	"strings"
	"time"
)

type catEntry struct {
	Targets []string `json:"targets"`
	Wrap    string   `json:"wrap"`
	// Pin: contract-language constraints on the function's inputs that make the
	// abstract metadata of the model coincide with the catalogue's first target
	Pin []string `json:"pin"`
}

type catalogue struct {
	Types   string              `json:"types"`
	Entries map[string]catEntry `json:"entries"`
	// Scenarios: obligation name prefix -> scenario test file (package plenc) under /verif/replay/scenarios
	Scenarios map[string]string `json:"scenarios"`
}

func loadCatalogue(verif string) *catalogue {
	b, err := os.ReadFile(filepath.Join(verif, "replay", "catalogue.json"))
	if err != nil {
		return nil
	}
	c := &catalogue{}
	if json.Unmarshal(b, c) != nil {
		return nil
	}
	return c
}

var theCatalogue *catalogue

// catalogueReplay feeds the model's data bytes through plenc.Unmarshal for
// each representative target type of the function and reports a panic, fault,
// hang or excessive allocation.
func catalogueReplay(key string, data []byte, workdir, repo string) *ReplayResult {
	res := &ReplayResult{How: "not-replayable", Detail: "no witness catalogue entry for " + key}
	if theCatalogue == nil {
		return res
	}
	ent, ok := theCatalogue.Entries[key]
	if !ok {
		return res
	}
	if ent.Wrap == "marshal" {
		return marshalReplay(ent, data, workdir, repo)
	}
	payload := data
	switch ent.Wrap {
	case "mapentry":
		// a map body with one entry: count, entry length, entry bytes
		payload = append([]byte{1, byte(len(data))}, data...)
		if len(data) > 127 {
			res.Detail = "entry too long to wrap"
			return res
		}
	}
	var b strings.Builder
	b.WriteString("package plenc\n\nimport (\n\tpvfmt \"fmt\"\n\tpvruntime \"runtime\"\n\t\"testing\"\n\t\"time\"\n)\n\nvar _ time.Time\n\n")
	b.WriteString(theCatalogue.Types + "\n\n")
	b.WriteString("func TestPlencvcReplay(t *testing.T) {\n\tdata := " + goBytes(payload) + "\n")
	for i, tgt := range ent.Targets {
		b.WriteString(fmt.Sprintf("\tfunc() {\n\t\tpvfmt.Println(\"REPLAY-TARGET: %s\")\n\t\tdefer func() {\n\t\t\tif r := recover(); r != nil {\n\t\t\t\tpvfmt.Println(\"REPLAY-PANIC:\", %q, r)\n\t\t\t}\n\t\t}()\n", tgt, tgt))
		b.WriteString("\t\tvar m0, m1 pvruntime.MemStats\n\t\tpvruntime.ReadMemStats(&m0)\n")
		b.WriteString(fmt.Sprintf("\t\tvar v%d %s\n\t\tbuf%d := make([]byte, len(data), len(data))\n\t\tcopy(buf%d, data)\n\t\terr := Unmarshal(buf%d, &v%d)\n", i, tgt, i, i, i, i))
		b.WriteString("\t\tpvruntime.ReadMemStats(&m1)\n")
		b.WriteString(fmt.Sprintf("\t\tif m1.TotalAlloc-m0.TotalAlloc > 4096*uint64(len(data)+16) {\n\t\t\tpvfmt.Println(\"REPLAY-ALLOC:\", %q, m1.TotalAlloc-m0.TotalAlloc)\n\t\t}\n", tgt))
		b.WriteString(fmt.Sprintf("\t\tpvfmt.Println(\"REPLAY-DONE: %s\", err)\n\t}()\n", tgt))
	}
	b.WriteString("}\n")
	goTest := b.String()
	testFile := filepath.Join(workdir, "plencvc_cat_test.go")
	os.WriteFile(testFile, []byte(goTest), 0o644)
	ov := map[string]map[string]string{"Replace": {filepath.Join(repo, "plencvc_cat_test.go"): testFile}}
	ovb, _ := json.Marshal(ov)
	ovFile := filepath.Join(workdir, "overlay_cat.json")
	os.WriteFile(ovFile, ovb, 0o644)
	ctx, cancel := context.WithTimeout(context.Background(), 120*time.Second)
	defer cancel()
	sh := fmt.Sprintf("ulimit -v 8000000; cd %s && exec go test -overlay %s -vet=off -count=1 -v -timeout 20s -run '^TestPlencvcReplay$' .", repo, ovFile)
	cmd := exec.CommandContext(ctx, "sh", "-c", sh)
	cmd.Env = append(os.Environ(), "GOFLAGS=-mod=mod", "GOPROXY=off", "GOSUMDB=off", "GOTOOLCHAIN=local")
	var ob bytes.Buffer
	cmd.Stdout = &ob
	cmd.Stderr = &ob
	cmd.Run()
	raw := ob.String()
	res.GoTest = goTest
	res.Output = tail(raw, 2500)
	res.Inputs = map[string]string{"data": fmt.Sprintf("hex:%x", payload)}
	last := ""
	for _, ln := range strings.Split(raw, "\n") {
		if strings.HasPrefix(ln, "REPLAY-TARGET: ") {
			last = strings.TrimPrefix(ln, "REPLAY-TARGET: ")
		}
	}
	switch {
	case strings.Contains(raw, "REPLAY-PANIC:"):
		res.Reproduced = true
		res.How = "panic"
		res.Detail = firstMatch(raw, "REPLAY-PANIC:")
	case strings.Contains(raw, "panic: test timed out") || ctx.Err() != nil:
		res.Reproduced = true
		res.How = "hang"
		res.Detail = "Unmarshal into " + last + " did not return within the test timeout"
	case strings.Contains(raw, "fatal error:") || strings.Contains(raw, "out of memory") || strings.Contains(raw, "unexpected fault address"):
		res.Reproduced = true
		res.How = "fault"
		res.Detail = firstMatch(raw, "fatal error:", "out of memory") + " (target " + last + ")"
	case strings.Contains(raw, "REPLAY-ALLOC:"):
		res.Reproduced = true
		res.How = "excessive-allocation"
		res.Detail = firstMatch(raw, "REPLAY-ALLOC:")
	case strings.Contains(raw, "REPLAY-DONE"):
		res.How = "not-reproduced"
		res.Detail = "Unmarshal of the model's bytes returned normally for every catalogue target"
	default:
		res.How = "not-replayable"
		res.Detail = "catalogue test did not run: " + firstLines(raw, 3)
	}
	return res
}

// marshalReplay calls the real Marshal with the model's destination buffer and
// each catalogue value expression and checks that the buffer's bytes are kept
// as a prefix of the result.
func marshalReplay(ent catEntry, data []byte, workdir, repo string) *ReplayResult {
	res := &ReplayResult{How: "not-replayable"}
	var b strings.Builder
	b.WriteString("package plenc\n\nimport (\n\tpvbytes \"bytes\"\n\tpvfmt \"fmt\"\n\t\"testing\"\n\t\"time\"\n)\n\nvar _ time.Time\n\n")
	b.WriteString(theCatalogue.Types + "\n\n")
	b.WriteString("func TestPlencvcReplay(t *testing.T) {\n\tdata := " + goBytes(data) + "\n")
	for _, tgt := range ent.Targets {
		b.WriteString(fmt.Sprintf("\tfunc() {\n\t\tdefer func() {\n\t\t\tif r := recover(); r != nil {\n\t\t\t\tpvfmt.Println(\"REPLAY-PANIC:\", %q, r)\n\t\t\t}\n\t\t}()\n", tgt))
		b.WriteString("\t\tbuf := make([]byte, len(data), len(data)+64)\n\t\tcopy(buf, data)\n")
		b.WriteString(fmt.Sprintf("\t\tout, err := Marshal(buf, %s)\n", tgt))
		b.WriteString(fmt.Sprintf("\t\tif err == nil && !pvbytes.HasPrefix(out, data) {\n\t\t\tpvfmt.Printf(\"REPLAY-PREFIX-LOST: Marshal(%%x, %%s) = %%x\\n\", data, %q, out)\n\t\t}\n", tgt))
		b.WriteString("\t\tpvfmt.Println(\"REPLAY-DONE\", err)\n\t}()\n")
	}
	b.WriteString("}\n")
	goTest := b.String()
	testFile := filepath.Join(workdir, "plencvc_cat_test.go")
	os.WriteFile(testFile, []byte(goTest), 0o644)
	ov := map[string]map[string]string{"Replace": {filepath.Join(repo, "plencvc_cat_test.go"): testFile}}
	ovb, _ := json.Marshal(ov)
	ovFile := filepath.Join(workdir, "overlay_cat.json")
	os.WriteFile(ovFile, ovb, 0o644)
	ctx, cancel := context.WithTimeout(context.Background(), 120*time.Second)
	defer cancel()
	sh := fmt.Sprintf("ulimit -v 8000000; cd %s && exec go test -overlay %s -vet=off -count=1 -v -timeout 20s -run '^TestPlencvcReplay$' .", repo, ovFile)
	cmd := exec.CommandContext(ctx, "sh", "-c", sh)
	cmd.Env = append(os.Environ(), "GOFLAGS=-mod=mod", "GOPROXY=off", "GOSUMDB=off", "GOTOOLCHAIN=local")
	var ob bytes.Buffer
	cmd.Stdout = &ob
	cmd.Stderr = &ob
	cmd.Run()
	raw := ob.String()
	res.GoTest = goTest
	res.Output = tail(raw, 2500)
	res.Inputs = map[string]string{"data": fmt.Sprintf("hex:%x", data)}
	switch {
	case strings.Contains(raw, "REPLAY-PREFIX-LOST:"):
		res.Reproduced = true
		res.How = "buffer-prefix-not-preserved"
		res.Detail = firstMatch(raw, "REPLAY-PREFIX-LOST:")
	case strings.Contains(raw, "REPLAY-PANIC:"):
		res.Reproduced = true
		res.How = "panic"
		res.Detail = firstMatch(raw, "REPLAY-PANIC:")
	case strings.Contains(raw, "REPLAY-DONE"):
		res.How = "not-reproduced"
		res.Detail = "Marshal kept the buffer prefix for every catalogue value"
	default:
		res.Detail = "catalogue test did not run: " + firstLines(raw, 3)
	}
	return res
}

// scenarioReplay runs a hand-written witness scenario for an obligation about
// ghost state (history, staleness) that no single input of the function can show.
func scenarioReplay(verif, file, workdir, repo string) *ReplayResult {
	res := &ReplayResult{How: "not-replayable"}
	src, err := os.ReadFile(filepath.Join(verif, "replay", "scenarios", file))
	if err != nil {
		res.Detail = err.Error()
		return res
	}
	testFile := filepath.Join(workdir, "plencvc_scn_test.go")
	os.WriteFile(testFile, src, 0o644)
	sub := "."
	if first := strings.SplitN(string(src), "\n", 2)[0]; strings.HasPrefix(first, "// dir: ") {
		sub = strings.TrimSpace(strings.TrimPrefix(first, "// dir: "))
	}
	repo = filepath.Join(repo, sub)
	ov := map[string]map[string]string{"Replace": {filepath.Join(repo, "plencvc_scn_test.go"): testFile}}
	ovb, _ := json.Marshal(ov)
	ovFile := filepath.Join(workdir, "overlay_scn.json")
	os.WriteFile(ovFile, ovb, 0o644)
	ctx, cancel := context.WithTimeout(context.Background(), 120*time.Second)
	defer cancel()
	sh := fmt.Sprintf("ulimit -v 8000000; cd %s && exec go test -overlay %s -vet=off -count=1 -v -timeout 30s -run '^TestPlencvcReplay$' .", repo, ovFile)
	cmd := exec.CommandContext(ctx, "sh", "-c", sh)
	cmd.Env = append(os.Environ(), "GOFLAGS=-mod=mod", "GOPROXY=off", "GOSUMDB=off", "GOTOOLCHAIN=local")
	var ob bytes.Buffer
	cmd.Stdout = &ob
	cmd.Stderr = &ob
	cmd.Run()
	raw := ob.String()
	res.GoTest = string(src)
	res.Output = tail(raw, 2000)
	switch {
	case strings.Contains(raw, "REPLAY-SCENARIO-FAILED"):
		res.Reproduced = true
		res.How = "witness-scenario-fails-on-the-real-code"
		res.Detail = firstMatch(raw, "REPLAY-SCENARIO-FAILED")
	case strings.Contains(raw, "REPLAY-SCENARIO-PASSED"):
		res.How = "not-reproduced"
		res.Detail = "the witness scenario passes on the real code"
	case strings.Contains(raw, "panic:") || strings.Contains(raw, "fatal error:"):
		res.Reproduced = true
		res.How = "panic"
		res.Detail = firstMatch(raw, "panic:", "fatal error:")
	default:
		res.Detail = "scenario did not run: " + firstLines(raw, 3)
	}
	return res
}
