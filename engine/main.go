package main

import (
	"flag"
	"fmt"
	"go/types"
	"os"
	"path/filepath"
	"sort"
	"strings"
	"time"

	"golang.org/x/tools/go/packages"
	"golang.org/x/tools/go/ssa"
	"golang.org/x/tools/go/ssa/ssautil"
)

type Loaded struct {
	prog    *ssa.Program
	pkgs    []*packages.Package
	byKey   map[string]*ssa.Function
	generic map[string][]*ssa.Function
	loadS   float64
	types   map[string]*types.Package // every loaded package (including dependencies) by short path
}

func loadRepo(repo string) (*Loaded, error) {
	start := time.Now()
	cfg := &packages.Config{Mode: packages.LoadAllSyntax, Dir: repo, BuildFlags: []string{"-tags=verif"},
		Env: append(os.Environ(), "GOFLAGS=-mod=mod", "GOPROXY=off", "GOSUMDB=off", "GOTOOLCHAIN=local")}
	pkgs, err := packages.Load(cfg, "./...")
	if err != nil {
		return nil, err
	}
	var errs []string
	tmap := map[string]*types.Package{}
	packages.Visit(pkgs, nil, func(p *packages.Package) {
		if p.Types != nil {
			tmap[shortPkg(p.PkgPath)] = p.Types
		}
		for _, e := range p.Errors {
			if strings.HasPrefix(p.PkgPath, modPrefix) {
				errs = append(errs, e.Error())
			}
		}
	})
	if len(errs) > 0 {
		return nil, fmt.Errorf("repository does not type-check: %s", strings.Join(errs, "; "))
	}
	prog, _ := ssautil.AllPackages(pkgs, ssa.InstantiateGenerics|ssa.GlobalDebug)
	prog.Build()
	ld := &Loaded{prog: prog, pkgs: pkgs, byKey: map[string]*ssa.Function{}, generic: map[string][]*ssa.Function{}, types: tmap}
	for fn := range ssautil.AllFunctions(prog) {
		if fn.Pkg == nil && fn.Object() == nil {
			continue
		}
		if len(fn.Blocks) == 0 {
			continue
		}
		k := fnKey(fn)
		if old, dup := ld.byKey[k]; dup && old.Synthetic == "" {
			continue
		}
		ld.byKey[k] = fn
		if gk, _ := genericKey(fn); gk != "" {
			ld.generic[gk] = append(ld.generic[gk], fn)
		}
	}
	for _, l := range ld.generic {
		sort.Slice(l, func(i, j int) bool { return fnKey(l[i]) < fnKey(l[j]) })
	}
	ld.loadS = time.Since(start).Seconds()
	theLoaded = ld
	return ld, nil
}

func hasTag(tags []string, p string) bool {
	for _, t := range tags {
		if t == p {
			return true
		}
	}
	return false
}

func contractHasTag(c *Contract, p string) bool {
	if hasTag(c.Safety, p) || hasTag(c.AssignTags, p) || hasTag(c.NoGlobals, p) {
		return true
	}
	if c.Delegates != nil && hasTag(c.Delegates.Tags, p) {
		return true
	}
	for _, nr := range c.NoReads {
		if hasTag(nr.Tags, p) {
			return true
		}
	}
	if c.MapInv != nil && hasTag(c.MapInv.Tags, p) {
		return true
	}
	for _, ac := range c.AtCalls {
		if hasTag(ac.Tags, p) {
			return true
		}
	}
	for _, nc := range c.NeedsClean {
		if hasTag(nc.Tags, p) {
			return true
		}
	}
	for _, cl := range c.Requires {
		if hasTag(cl.Tags, p) {
			return true
		}
	}
	for _, cl := range c.Ensures {
		if hasTag(cl.Tags, p) {
			return true
		}
	}
	if c.Appends != nil && hasTag(c.Appends.Tags, p) {
		return true
	}
	if c.AllocBound != nil && hasTag(c.AllocBound.Tags, p) {
		return true
	}
	for _, l := range c.Loops {
		for _, cl := range l.Invariants {
			if hasTag(cl.Tags, p) {
				return true
			}
		}
		for _, cl := range l.Steps {
			if hasTag(cl.Tags, p) {
				return true
			}
		}
		for _, cl := range l.Entries {
			if hasTag(cl.Tags, p) {
				return true
			}
		}
		if l.Decreases != nil && hasTag(l.Decreases.Tags, p) {
			return true
		}
	}
	return false
}

func header(specs *Specs, x *Exec) string {
	var b strings.Builder
	b.WriteString("(set-option :produce-models true)\n(set-logic ALL)\n")
	b.WriteString(specs.Prelude)
	if x != nil {
		var names []string
		for n := range x.ufDecl {
			names = append(names, n)
		}
		sort.Strings(names)
		for _, n := range names {
			b.WriteString(x.ufDecl[n] + "\n")
		}
	}
	return b.String()
}

func main() {
	if len(os.Args) < 2 {
		fmt.Fprintln(os.Stderr, "usage: plencvc check|dump|list ...")
		os.Exit(2)
	}
	switch os.Args[1] {
	case "check":
		os.Exit(cmdCheck(os.Args[2:]))
	case "dump":
		os.Exit(cmdDump(os.Args[2:]))
	case "list":
		os.Exit(cmdList(os.Args[2:]))
	case "selftest":
		os.Exit(cmdSelftest(os.Args[2:]))
	}
	fmt.Fprintln(os.Stderr, "unknown command")
	os.Exit(2)
}

func cmdList(args []string) int {
	fs := flag.NewFlagSet("list", flag.ExitOnError)
	repo := fs.String("repo", "/repo", "")
	fs.Parse(args)
	ld, err := loadRepo(*repo)
	if err != nil {
		fmt.Println(err)
		return 2
	}
	var keys []string
	for k := range ld.byKey {
		if strings.HasPrefix(k, "plenc") || strings.HasPrefix(k, "null") || strings.HasPrefix(k, "cmd/") || strings.HasPrefix(k, "encoding/binary.Uvarint") {
			keys = append(keys, k)
		}
	}
	sort.Strings(keys)
	for _, k := range keys {
		gk, _ := genericKey(ld.byKey[k])
		fmt.Println(k, gk)
	}
	return 0
}

func cmdDump(args []string) int {
	fs := flag.NewFlagSet("dump", flag.ExitOnError)
	repo := fs.String("repo", "/repo", "")
	verif := fs.String("verif", "/verif", "")
	fn := fs.String("func", "", "function key")
	smt := fs.Bool("smt", false, "print the SMT scripts")
	timeout := fs.Int("timeout", 10, "")
	keep := fs.String("keep", "", "directory to write complete query files to (debugging)")
	covers := fs.Bool("covers", false, "emit a satisfiability query behind every contract call")
	fs.Parse(args)
	specs, err := loadSpecs(filepath.Join(*verif, "spec"), *repo)
	if err != nil {
		fmt.Println(err)
		return 2
	}
	ld, err := loadRepo(*repo)
	if err != nil {
		fmt.Println(err)
		return 2
	}
	f := ld.byKey[*fn]
	if f == nil {
		fmt.Println("no such function", *fn)
		return 2
	}
	con, tp := (&Exec{specs: specs}).contractFor(f)
	if con == nil {
		con = &Contract{Func: *fn, Loops: map[int]*LoopSpec{}}
	}
	callCovers = *covers
	x := newExec(ld.prog, specs, f, con, tp)
	if err := x.analyze(); err != nil {
		fmt.Println("ERROR:", err)
	}
	var obls []*Obligation
	for _, n := range x.order {
		obls = append(obls, x.obls[n])
	}
	work, _ := os.MkdirTemp("", "plencvc")
	defer os.RemoveAll(work)
	dischargeAll(obls, header(specs, x), work, *timeout, false, 8)
	for _, o := range obls {
		status, _ := obligationStatus(o)
		fmt.Printf("%-8s %s  [%s] %s  (%d queries, %d trivial) %s\n", status, o.Name, strings.Join(o.Tags, ","), o.Pos, len(o.Queries), o.Trivial, o.Text)
		if o.GenFail != "" {
			fmt.Println("    could not be generated:", o.GenFail)
		}
		for _, q := range o.Queries {
			if q.Time > 1.0 {
				fmt.Printf("    slow: path %d %s %s %.2fs\n", q.PathID, q.Result, q.Solver, q.Time)
			}
			if q.Result != q.Expect {
				fmt.Printf("    path %d: %s (%s %.2fs) %v\n", q.PathID, q.Result, q.Solver, q.Time, compactModel(q.Model))
				if q.Result != "sat" && q.Result != "unsat" {
					fmt.Println("    ", firstLines(q.Output, 6))
				}
			}
			if *smt {
				fmt.Println(q.Script)
			}
			if *keep != "" && (q.Result != q.Expect || q.Time > 2.0) {
				os.MkdirAll(*keep, 0o755)
				fn := filepath.Join(*keep, fmt.Sprintf("%s.p%d.smt2", sanitize(o.Name), q.PathID))
				os.WriteFile(fn, []byte(header(specs, x)+q.Script+"(check-sat)\n"), 0o644)
				fmt.Println("    kept:", fn)
			}
		}
	}
	for _, w := range x.warnings {
		fmt.Println("warning:", w)
	}
	for _, a := range sortedKeys(x.assumptions) {
		fmt.Println("assumption:", a)
	}
	return 0
}

func compactModel(m map[string]string) string {
	var ks []string
	for k := range m {
		ks = append(ks, k)
	}
	sort.Strings(ks)
	var parts []string
	for _, k := range ks {
		if strings.Contains(k, "[") {
			continue
		}
		parts = append(parts, k+"="+m[k])
	}
	return strings.Join(parts, " ")
}

// obligationStatus: "proved", "FAILED", "unknown", "genfail", "covered"
func obligationStatus(o *Obligation) (string, *Query) {
	if o.GenFail != "" {
		return "genfail", nil
	}
	var bad *Query
	status := "proved"
	if o.Expect == "sat" {
		status = "covered"
	}
	if o.Expect == "sat" && len(o.Queries) > 0 && o.Queries[0].Role != "" {
		// call cover: vacuous only when the call is reachable (some state before it is satisfiable)
		// and no state after assuming the callee's contract is; a call in dead code is not an alarm
		preSat, postSat := false, false
		for _, q := range o.Queries {
			if q.Result == "sat" {
				if q.Role == "post" {
					postSat = true
				} else {
					preSat = true
				}
			}
		}
		if postSat || !preSat {
			return "covered", nil
		}
		for _, q := range o.Queries {
			if q.Role == "post" && q.Result != "unsat" {
				return "covered", nil // undecided: no alarm
			}
		}
		for _, q := range o.Queries {
			if q.Role == "post" {
				return "VACUOUS", q
			}
		}
		return "covered", nil
	}
	if o.Expect == "sat" {
		// a cover obligation holds when at least one of its queries is satisfiable
		for _, q := range o.Queries {
			if q.Result == "sat" {
				return "covered", nil
			}
		}
		for _, q := range o.Queries {
			if q.Result != "unsat" {
				return "unknown", q
			}
		}
		if len(o.Queries) > 0 {
			return "VACUOUS", o.Queries[0]
		}
		return "VACUOUS", nil
	}
	for _, q := range o.Queries {
		if q.Result == q.Expect {
			continue
		}
		if q.Expect == "unsat" && q.Result == "sat" {
			return "FAILED", q
		}
		if q.Expect == "sat" && q.Result == "unsat" {
			return "VACUOUS", q
		}
		status = "unknown"
		bad = q
	}
	return status, bad
}

func cmdSelftest(args []string) int { return 2 }
