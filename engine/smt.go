package main

// SMT-LIB term construction helpers. Terms are strings; a little constant
// folding keeps them small and makes syntactic equality more frequent.

import (
	"fmt"
	"math/big"
	"strconv"
	"strings"
)

func bvLit(v uint64, w int) string {
	switch w {
	case 8:
		return fmt.Sprintf("#x%02x", v&0xff)
	case 16:
		return fmt.Sprintf("#x%04x", v&0xffff)
	case 32:
		return fmt.Sprintf("#x%08x", v&0xffffffff)
	case 64:
		return fmt.Sprintf("#x%016x", v)
	}
	m := new(big.Int).SetUint64(v)
	if w < 64 {
		m.And(m, new(big.Int).Sub(new(big.Int).Lsh(big.NewInt(1), uint(w)), big.NewInt(1)))
	}
	return fmt.Sprintf("(_ bv%s %d)", m.String(), w)
}

func bvLitBig(v *big.Int, w int) string {
	m := new(big.Int).Set(v)
	mod := new(big.Int).Lsh(big.NewInt(1), uint(w))
	m.Mod(m, mod)
	if m.Sign() < 0 {
		m.Add(m, mod)
	}
	if m.IsUint64() {
		return bvLit(m.Uint64(), w)
	}
	return fmt.Sprintf("(_ bv%s %d)", m.String(), w)
}

// litVal parses a #x literal back; ok=false when t is not a literal.
func litVal(t string) (uint64, int, bool) {
	if strings.HasPrefix(t, "#x") {
		v, err := strconv.ParseUint(t[2:], 16, 64)
		if err != nil {
			return 0, 0, false
		}
		return v, 4 * (len(t) - 2), true
	}
	return 0, 0, false
}

func sortBV(w int) string { return fmt.Sprintf("(_ BitVec %d)", w) }

const sortMem = "(Array (_ BitVec 64) (_ BitVec 8))"

func app(op string, args ...string) string {
	return "(" + op + " " + strings.Join(args, " ") + ")"
}

func bvadd(a, b string) string {
	if va, w, ok := litVal(a); ok {
		if va == 0 {
			return b
		}
		if vb, _, ok2 := litVal(b); ok2 {
			return bvLit(va+vb, w)
		}
	}
	if vb, _, ok := litVal(b); ok && vb == 0 {
		return a
	}
	return app("bvadd", a, b)
}

func bvsub(a, b string) string {
	if vb, w, ok := litVal(b); ok {
		if vb == 0 {
			return a
		}
		if va, _, ok2 := litVal(a); ok2 {
			return bvLit(va-vb, w)
		}
	}
	if a == b {
		return ""
	}
	return app("bvsub", a, b)
}

func bvsubw(a, b string, w int) string {
	r := bvsub(a, b)
	if r == "" {
		return bvLit(0, w)
	}
	return r
}

func and(cs ...string) string {
	var out []string
	for _, c := range cs {
		if c == "true" || c == "" {
			continue
		}
		if c == "false" {
			return "false"
		}
		out = append(out, c)
	}
	switch len(out) {
	case 0:
		return "true"
	case 1:
		return out[0]
	}
	return app("and", out...)
}

func or(cs ...string) string {
	var out []string
	for _, c := range cs {
		if c == "false" || c == "" {
			continue
		}
		if c == "true" {
			return "true"
		}
		out = append(out, c)
	}
	switch len(out) {
	case 0:
		return "false"
	case 1:
		return out[0]
	}
	return app("or", out...)
}

func not(c string) string {
	switch c {
	case "true":
		return "false"
	case "false":
		return "true"
	}
	if strings.HasPrefix(c, "(not ") && balanced(c[5:len(c)-1]) {
		return c[5 : len(c)-1]
	}
	return app("not", c)
}

func balanced(s string) bool {
	d := 0
	for _, ch := range s {
		if ch == '(' {
			d++
		} else if ch == ')' {
			d--
			if d < 0 {
				return false
			}
		}
	}
	return d == 0
}

func implies(a, b string) string {
	if a == "true" {
		return b
	}
	if a == "false" || b == "true" {
		return "true"
	}
	return app("=>", a, b)
}

func ite(c, a, b string) string {
	if c == "true" {
		return a
	}
	if c == "false" {
		return b
	}
	if a == b {
		return a
	}
	return app("ite", c, a, b)
}

func eq(a, b string) string {
	if a == b {
		return "true"
	}
	if va, _, ok := litVal(a); ok {
		if vb, _, ok2 := litVal(b); ok2 {
			if va == vb {
				return "true"
			}
			return "false"
		}
	}
	return app("=", a, b)
}

func zext(t string, from, to int) string {
	if from == to {
		return t
	}
	if v, _, ok := litVal(t); ok && to <= 64 {
		return bvLit(v, to)
	}
	return fmt.Sprintf("((_ zero_extend %d) %s)", to-from, t)
}

func sext(t string, from, to int) string {
	if from == to {
		return t
	}
	if v, _, ok := litVal(t); ok && to <= 64 {
		sh := uint(64 - from)
		return bvLit(uint64(int64(v<<sh)>>sh), to)
	}
	return fmt.Sprintf("((_ sign_extend %d) %s)", to-from, t)
}

func extract(t string, hi, lo int) string {
	if v, _, ok := litVal(t); ok {
		return bvLit(v>>uint(lo), hi-lo+1)
	}
	return fmt.Sprintf("((_ extract %d %d) %s)", hi, lo, t)
}

// resize converts a bit-vector of width from to width to, Go conversion rules.
func resize(t string, from, to int, signed bool) string {
	if from == to {
		return t
	}
	if to < from {
		return extract(t, to-1, 0)
	}
	if signed {
		return sext(t, from, to)
	}
	return zext(t, from, to)
}

func boolToBV(c string, w int) string { return ite(c, bvLit(1, w), bvLit(0, w)) }
