package main

// Contract expression language: parser.
//
//   expr   := 'forall' ident type '::' expr | 'exists' ... | iff
//   iff    := impl ('<==>' impl)?
//   impl   := or ('==>' impl)?
//   or     := and ('||' and)*
//   and    := cmp ('&&' cmp)*
//   cmp    := cat (('=='|'!='|'<'|'<='|'>'|'>=') cat)?
//   cat    := add ('++' add)*
//   add    := mul (('+'|'-'|'|'|'^') mul)*
//   mul    := unary (('*'|'/'|'%'|'<<'|'>>'|'&') unary)*
//   unary  := ('!'|'-'|'^') unary | postfix
//   postfix:= primary ('[' expr ']' | '[' expr? ':' expr? ']' | '.' ident | '(' args ')')*
//   primary:= int | char | string | 'true' | 'false' | 'nil' | ident | '(' expr ')'

import (
	"fmt"
	"strings"
	"unicode"
)

type CExpr struct {
	Op   string   // "lit","ident","bin","un","call","index","slice","field","forall","exists","str"
	Tok  string   // operator / identifier / literal text
	Args []*CExpr // operands
	Var  string   // quantifier variable
	VTyp string   // quantifier variable type
	Pos  int
}

type cparser struct {
	toks []ctok
	i    int
	src  string
}

type ctok struct {
	k   string // "id","int","op","str","char","eof"
	s   string
	pos int
}

func clex(src string) ([]ctok, error) {
	var out []ctok
	i := 0
	for i < len(src) {
		c := src[i]
		switch {
		case c == ' ' || c == '\t' || c == '\n':
			i++
		case unicode.IsLetter(rune(c)) || c == '_':
			j := i
			for j < len(src) && (unicode.IsLetter(rune(src[j])) || unicode.IsDigit(rune(src[j])) || src[j] == '_') {
				j++
			}
			out = append(out, ctok{"id", src[i:j], i})
			i = j
		case unicode.IsDigit(rune(c)):
			j := i
			for j < len(src) && (unicode.IsDigit(rune(src[j])) || unicode.IsLetter(rune(src[j])) || src[j] == '_') {
				j++
			}
			out = append(out, ctok{"int", strings.ReplaceAll(src[i:j], "_", ""), i})
			i = j
		case c == '"':
			j := i + 1
			for j < len(src) && src[j] != '"' {
				if src[j] == '\\' {
					j++
				}
				j++
			}
			if j >= len(src) {
				return nil, fmt.Errorf("unterminated string at %d", i)
			}
			out = append(out, ctok{"str", src[i : j+1], i})
			i = j + 1
		case c == '\'':
			j := i + 1
			for j < len(src) && src[j] != '\'' {
				if src[j] == '\\' {
					j++
				}
				j++
			}
			if j >= len(src) {
				return nil, fmt.Errorf("unterminated char at %d", i)
			}
			out = append(out, ctok{"char", src[i : j+1], i})
			i = j + 1
		default:
			ops := []string{"<==>", "==>", "::", "++", "==", "!=", "<=", ">=", "&&", "||", "<<", ">>", "&^",
				"<", ">", "+", "-", "*", "/", "%", "&", "|", "^", "!", "(", ")", "[", "]", ",", ".", ":", "@"}
			matched := false
			for _, op := range ops {
				if strings.HasPrefix(src[i:], op) {
					out = append(out, ctok{"op", op, i})
					i += len(op)
					matched = true
					break
				}
			}
			if !matched {
				return nil, fmt.Errorf("unexpected character %q at %d in %q", c, i, src)
			}
		}
	}
	out = append(out, ctok{"eof", "", len(src)})
	return out, nil
}

func parseCExpr(src string) (*CExpr, error) {
	toks, err := clex(src)
	if err != nil {
		return nil, err
	}
	p := &cparser{toks: toks, src: src}
	var e *CExpr
	func() {
		defer func() {
			if r := recover(); r != nil {
				err = fmt.Errorf("%v", r)
			}
		}()
		e = p.expr()
		if p.peek().k != "eof" {
			panic(fmt.Sprintf("trailing input at %d in %q", p.peek().pos, src))
		}
	}()
	return e, err
}

func (p *cparser) peek() ctok { return p.toks[p.i] }
func (p *cparser) next() ctok { t := p.toks[p.i]; p.i++; return t }
func (p *cparser) isOp(s string) bool {
	t := p.peek()
	return t.k == "op" && t.s == s
}
func (p *cparser) expect(s string) {
	if !p.isOp(s) {
		panic(fmt.Sprintf("expected %q at %d in %q", s, p.peek().pos, p.src))
	}
	p.i++
}

func (p *cparser) expr() *CExpr {
	t := p.peek()
	if t.k == "id" && (t.s == "forall" || t.s == "exists") {
		p.next()
		v := p.next()
		ty := p.next()
		p.expect("::")
		body := p.expr()
		return &CExpr{Op: t.s, Var: v.s, VTyp: ty.s, Args: []*CExpr{body}, Pos: t.pos}
	}
	return p.iff()
}

func (p *cparser) iff() *CExpr {
	l := p.impl()
	if p.isOp("<==>") {
		t := p.next()
		r := p.impl()
		return &CExpr{Op: "bin", Tok: "<==>", Args: []*CExpr{l, r}, Pos: t.pos}
	}
	return l
}

func (p *cparser) impl() *CExpr {
	l := p.or()
	if p.isOp("==>") {
		t := p.next()
		var r *CExpr
		if pk := p.peek(); pk.k == "id" && (pk.s == "forall" || pk.s == "exists") {
			r = p.expr()
		} else {
			r = p.impl()
		}
		return &CExpr{Op: "bin", Tok: "==>", Args: []*CExpr{l, r}, Pos: t.pos}
	}
	return l
}

func (p *cparser) binLeft(sub func() *CExpr, ops ...string) *CExpr {
	l := sub()
	for {
		found := false
		for _, op := range ops {
			if p.isOp(op) {
				t := p.next()
				r := sub()
				l = &CExpr{Op: "bin", Tok: op, Args: []*CExpr{l, r}, Pos: t.pos}
				found = true
				break
			}
		}
		if !found {
			return l
		}
	}
}

func (p *cparser) or() *CExpr  { return p.binLeft(p.and, "||") }
func (p *cparser) and() *CExpr { return p.binLeft(p.cmp, "&&") }
func (p *cparser) cmp() *CExpr {
	l := p.cat()
	for _, op := range []string{"==", "!=", "<=", ">=", "<", ">"} {
		if p.isOp(op) {
			t := p.next()
			r := p.cat()
			return &CExpr{Op: "bin", Tok: op, Args: []*CExpr{l, r}, Pos: t.pos}
		}
	}
	return l
}
func (p *cparser) cat() *CExpr { return p.binLeft(p.add, "++") }
func (p *cparser) add() *CExpr { return p.binLeft(p.mul, "+", "-", "|", "^") }
func (p *cparser) mul() *CExpr { return p.binLeft(p.unary, "*", "/", "%", "<<", ">>", "&^", "&") }

func (p *cparser) unary() *CExpr {
	for _, op := range []string{"!", "-", "^"} {
		if p.isOp(op) {
			t := p.next()
			x := p.unary()
			return &CExpr{Op: "un", Tok: op, Args: []*CExpr{x}, Pos: t.pos}
		}
	}
	return p.postfix()
}

func (p *cparser) postfix() *CExpr {
	e := p.primary()
	for {
		switch {
		case p.isOp("["):
			t := p.next()
			var lo, hi *CExpr
			if !p.isOp(":") {
				lo = p.expr()
			}
			if p.isOp(":") {
				p.next()
				if !p.isOp("]") {
					hi = p.expr()
				}
				p.expect("]")
				e = &CExpr{Op: "slice", Args: []*CExpr{e, lo, hi}, Pos: t.pos}
			} else {
				p.expect("]")
				e = &CExpr{Op: "index", Args: []*CExpr{e, lo}, Pos: t.pos}
			}
		case p.isOp("."):
			t := p.next()
			id := p.next()
			if id.k != "id" {
				panic(fmt.Sprintf("expected field name at %d in %q", id.pos, p.src))
			}
			e = &CExpr{Op: "field", Tok: id.s, Args: []*CExpr{e}, Pos: t.pos}
		case p.isOp("("):
			t := p.next()
			var args []*CExpr
			for !p.isOp(")") {
				args = append(args, p.expr())
				if p.isOp(",") {
					p.next()
				}
			}
			p.expect(")")
			if e.Op != "ident" {
				panic(fmt.Sprintf("call of non-identifier at %d in %q", t.pos, p.src))
			}
			e = &CExpr{Op: "call", Tok: e.Tok, Args: args, Pos: t.pos}
		default:
			return e
		}
	}
}

func (p *cparser) primary() *CExpr {
	t := p.next()
	switch t.k {
	case "int":
		return &CExpr{Op: "lit", Tok: t.s, Pos: t.pos}
	case "char":
		return &CExpr{Op: "char", Tok: t.s, Pos: t.pos}
	case "str":
		return &CExpr{Op: "str", Tok: t.s, Pos: t.pos}
	case "id":
		return &CExpr{Op: "ident", Tok: t.s, Pos: t.pos}
	case "op":
		if t.s == "(" {
			e := p.expr()
			p.expect(")")
			return e
		}
		if t.s == "@" {
			// ghost call of another function's contract: @Name(args) or @pkg.Recv.Name(args)
			name := ""
			for {
				if p.isOp("*") {
					name += p.next().s
				}
				id := p.next()
				if id.k != "id" {
					panic(fmt.Sprintf("expected identifier after @ at %d in %q", id.pos, p.src))
				}
				name += id.s
				if p.isOp(".") || p.isOp("/") {
					name += p.next().s
					continue
				}
				break
			}
			p.expect("(")
			var args []*CExpr
			for !p.isOp(")") {
				args = append(args, p.expr())
				if p.isOp(",") {
					p.next()
				}
			}
			p.expect(")")
			return &CExpr{Op: "ghostcall", Tok: name, Args: args, Pos: t.pos}
		}
	}
	panic(fmt.Sprintf("unexpected token %q at %d in %q", t.s, t.pos, p.src))
}

func (e *CExpr) String() string {
	if e == nil {
		return ""
	}
	switch e.Op {
	case "lit", "ident", "char", "str":
		return e.Tok
	case "bin":
		return "(" + e.Args[0].String() + " " + e.Tok + " " + e.Args[1].String() + ")"
	case "un":
		return e.Tok + e.Args[0].String()
	case "call":
		var a []string
		for _, x := range e.Args {
			a = append(a, x.String())
		}
		return e.Tok + "(" + strings.Join(a, ", ") + ")"
	case "index":
		return e.Args[0].String() + "[" + e.Args[1].String() + "]"
	case "slice":
		return e.Args[0].String() + "[" + e.Args[1].String() + ":" + e.Args[2].String() + "]"
	case "field":
		return e.Args[0].String() + "." + e.Tok
	case "ghostcall":
		var a []string
		for _, x := range e.Args {
			a = append(a, x.String())
		}
		return "@" + e.Tok + "(" + strings.Join(a, ", ") + ")"
	case "forall", "exists":
		return e.Op + " " + e.Var + " " + e.VTyp + " :: " + e.Args[0].String()
	}
	return "?"
}
