package main

import (
	"fmt"
	"go/types"
)

// Kind of an engine value.
type Kind int

const (
	KBool Kind = iota
	KBV
	KPtr   // 64-bit address (pointers, unsafe.Pointer, uintptr, maps, chans)
	KTuple // structs, slices (ptr,len,cap), strings (ptr,len), interfaces (typ,data), tuples, arrays
	KFunc  // function value / closure, engine side only
	KSeq   // specification sequence (contracts only)
	KMem   // a memory array term (contracts only, for heap-dependent spec functions)
)

// Prov is the provenance of an address: which memory array it indexes and
// which ghost region it belongs to (used for the aliasing obligations).
type Prov struct {
	Space  string // "H" typed heap, "B" byte contents, "L<k>" local object k
	Region string // ghost region label: in:<param>, fresh#k, local, target, meta, const, owned, unknown
}

type V struct {
	K      Kind
	T      string
	W      int
	Signed bool
	Prov   *Prov
	Fs     []V
	Fn     *Closure
	Seq    *Seq
	Typ    types.Type // static Go type when known (nil in contracts for literals)
	Box    *V         // for the data word of an interface built from a non-pointer value: the boxed value
}

type Seq struct {
	Cond       string // for ite(cond, Then, Else)
	Then, Else *Seq
	Parts      []*Seq                  // for concatenations: the operands (obligations are split per part)
	Max        int                     // static upper bound of the length (0 = unknown)
	Len        string                  // BV64 term
	Byte       func(idx string) string // BV8 term for a BV64 index term
}

func vBool(t string) V              { return V{K: KBool, T: t} }
func vBV(t string, w int, s bool) V { return V{K: KBV, T: t, W: w, Signed: s} }
func vPtr(t string, p *Prov) V      { return V{K: KPtr, T: t, W: 64, Prov: p} }
func vTuple(fs ...V) V              { return V{K: KTuple, Fs: fs} }

var sizes = types.SizesFor("gc", "amd64")

func sizeof(t types.Type) int64 { return sizes.Sizeof(t) }

func isByte(t types.Type) bool {
	b, ok := t.Underlying().(*types.Basic)
	return ok && (b.Kind() == types.Uint8 || b.Kind() == types.Int8 && false)
}

// basicInfo returns width and signedness of a basic numeric type.
func basicInfo(b *types.Basic) (w int, signed bool, ok bool) {
	switch b.Kind() {
	case types.Int8:
		return 8, true, true
	case types.Int16:
		return 16, true, true
	case types.Int32, types.UntypedRune:
		return 32, true, true
	case types.Int, types.Int64, types.UntypedInt:
		return 64, true, true
	case types.Uint8:
		return 8, false, true
	case types.Uint16:
		return 16, false, true
	case types.Uint32:
		return 32, false, true
	case types.Uint, types.Uint64:
		return 64, false, true
	case types.Float32:
		return 32, false, true
	case types.Float64, types.UntypedFloat:
		return 64, false, true
	}
	return 0, false, false
}

// leafShape describes one scalar leaf of a flattened Go type, with its byte
// offset inside the value's memory representation.
type leafShape struct {
	Off    int64
	K      Kind
	W      int
	Signed bool
	// for pointers: static elem information used to choose the memory space
	ByteElem bool // pointer to byte contents (string / []byte data pointer)
	Typ      types.Type
}

// flatten lists the scalar leaves of t in memory order.
func flatten(t types.Type, base int64, out *[]leafShape) {
	switch u := t.Underlying().(type) {
	case *types.Basic:
		switch {
		case u.Kind() == types.Bool || u.Kind() == types.UntypedBool:
			*out = append(*out, leafShape{Off: base, K: KBool, W: 8, Typ: t})
		case u.Kind() == types.String || u.Kind() == types.UntypedString:
			*out = append(*out, leafShape{Off: base, K: KPtr, W: 64, ByteElem: true, Typ: t})
			*out = append(*out, leafShape{Off: base + 8, K: KBV, W: 64, Signed: true, Typ: types.Typ[types.Int]})
		case u.Kind() == types.UnsafePointer || u.Kind() == types.Uintptr:
			*out = append(*out, leafShape{Off: base, K: KPtr, W: 64, Typ: t})
		case u.Kind() == types.UntypedNil:
			*out = append(*out, leafShape{Off: base, K: KPtr, W: 64, Typ: t})
		default:
			w, s, ok := basicInfo(u)
			if !ok {
				panic(fmt.Sprintf("unsupported basic type %v", t))
			}
			*out = append(*out, leafShape{Off: base, K: KBV, W: w, Signed: s, Typ: t})
		}
	case *types.Pointer, *types.Map, *types.Chan, *types.Signature:
		*out = append(*out, leafShape{Off: base, K: KPtr, W: 64, Typ: t})
	case *types.Slice:
		*out = append(*out, leafShape{Off: base, K: KPtr, W: 64, ByteElem: isByte(u.Elem()), Typ: t})
		*out = append(*out, leafShape{Off: base + 8, K: KBV, W: 64, Signed: true, Typ: types.Typ[types.Int]})
		*out = append(*out, leafShape{Off: base + 16, K: KBV, W: 64, Signed: true, Typ: types.Typ[types.Int]})
	case *types.Interface:
		*out = append(*out, leafShape{Off: base, K: KPtr, W: 64, Typ: t})
		*out = append(*out, leafShape{Off: base + 8, K: KPtr, W: 64, Typ: t})
	case *types.Struct:
		n := u.NumFields()
		fields := make([]*types.Var, n)
		for i := 0; i < n; i++ {
			fields[i] = u.Field(i)
		}
		offs := sizes.Offsetsof(fields)
		for i := 0; i < n; i++ {
			flatten(fields[i].Type(), base+offs[i], out)
		}
	case *types.Array:
		es := sizeof(u.Elem())
		if u.Len() > 64 {
			panic(fmt.Sprintf("array too large to flatten: %v", t))
		}
		for i := int64(0); i < u.Len(); i++ {
			flatten(u.Elem(), base+i*es, out)
		}
	case *types.Tuple:
		off := base
		for i := 0; i < u.Len(); i++ {
			flatten(u.At(i).Type(), off, out)
			off += 64 // tuples never live in memory; offsets only need to be distinct
		}
	default:
		panic(fmt.Sprintf("unsupported type %v (%T)", t, u))
	}
}

// build constructs a V of the shape of t, taking leaves from next().
func build(t types.Type, next func(ls leafShape) V) V {
	var rec func(t types.Type, base int64) V
	rec = func(t types.Type, base int64) V {
		switch u := t.Underlying().(type) {
		case *types.Struct:
			n := u.NumFields()
			fields := make([]*types.Var, n)
			for i := 0; i < n; i++ {
				fields[i] = u.Field(i)
			}
			offs := sizes.Offsetsof(fields)
			v := V{K: KTuple, Typ: t}
			for i := 0; i < n; i++ {
				v.Fs = append(v.Fs, rec(fields[i].Type(), base+offs[i]))
			}
			return v
		case *types.Array:
			es := sizeof(u.Elem())
			v := V{K: KTuple, Typ: t}
			for i := int64(0); i < u.Len(); i++ {
				v.Fs = append(v.Fs, rec(u.Elem(), base+i*es))
			}
			return v
		case *types.Tuple:
			v := V{K: KTuple, Typ: t}
			off := base
			for i := 0; i < u.Len(); i++ {
				v.Fs = append(v.Fs, rec(u.At(i).Type(), off))
				off += 64
			}
			return v
		}
		var ls []leafShape
		flatten(t, base, &ls)
		if len(ls) == 1 {
			v := next(ls[0])
			v.Typ = t
			return v
		}
		v := V{K: KTuple, Typ: t}
		for _, l := range ls {
			v.Fs = append(v.Fs, next(l))
		}
		return v
	}
	return rec(t, 0)
}

// leaves returns the scalar leaves of v in order.
func leaves(v V, out *[]V) {
	if v.K == KTuple {
		for _, f := range v.Fs {
			leaves(f, out)
		}
		return
	}
	*out = append(*out, v)
}

func sortOf(v V) string {
	switch v.K {
	case KBool:
		return "Bool"
	case KBV, KPtr:
		return sortBV(v.W)
	case KMem:
		return sortMem
	}
	panic("sortOf: non-scalar")
}

// zero value of a type.
func zeroOf(t types.Type) V {
	return build(t, func(ls leafShape) V {
		switch ls.K {
		case KBool:
			return vBool("false")
		case KPtr:
			return vPtr(bvLit(0, 64), nil)
		}
		return vBV(bvLit(0, ls.W), ls.W, ls.Signed)
	})
}

// isNilIface etc.
func ifaceIsNil(v V) string { return eq(v.Fs[0].T, bvLit(0, 64)) }

func sliceParts(v V) (ptr V, ln V, cp V) {
	if len(v.Fs) == 2 {
		return v.Fs[0], v.Fs[1], v.Fs[1]
	}
	return v.Fs[0], v.Fs[1], v.Fs[2]
}
