#!/usr/bin/env python3
"""Regenerates /verif/MANIFEST.json from the table below (what is claimed, at
what level, and what is not applicable). Run after changing coverage."""
import json, subprocess

TECH = "contract-based deductive verification: weakest-precondition VCs generated from go/ssa of /repo, discharged by SMT (z3, z3 5.x, cvc5)"
TRUST = ("Trusted: go/packages+go/ssa, the SMT solvers, the plencvc VC generator and spec prelude, the extern contracts and "
         "modelling assumptions listed in the evidence file (append modelled by its result contents, codec metadata immutable, "
         "separation of slice/pointer headers from their contents, runtime linknames).")

CLAIMS = {
 "C18": ("proof", "Every function of plenccore (varint append/read/size, zig-zag, tag, Skip) and encoding/binary.Uvarint (GOROOT source) is under a functional contract written against spec functions taken from the protobuf encoding guide. Obligations are generated from the current tree (bit-vector exact; width-bounded loops unrolled with the unwinding assertion proved; Skip's counted-slice loop cut at an invariant with a termination measure) and all are discharged, for all 2^64 values, all wire types, all field indexes below 2^60 and all byte strings; spec-level lemmas (zig-zag injective, k-byte bands, tag injectivity) are discharged too.",
         "Counted-slice exactness of Skip is proved under a ghost well-formedness hypothesis whose per-entry definition is instantiated at the loop counter. math/bits.Len64 and fmt.Errorf are assumed contracts."),
 "C05": ("proof", "Size == len(Append) - len(data), tag framing (tag, varint length, body) and consumed length n are proved from functional contracts for every leaf codec (bool, all IntCodec/UintCodec/FlatIntCodec instantiations, float32/64, string, bytes) for every value and every tag; decoders of composite values (struct, map, slice wrappers, time) are proved to return 0 <= n <= len(data). For StructCodec the law is proved too: size and append walk the same fields (ghost partial sums), Size adds tag and varint length exactly when tagged, and len(Append) - len(data) == Size; the time codecs, the five null.* codecs and the BigQuery timestamp codec (whose inherited Size was wrong - repaired by a fix: commit) are proved as well. Slice wrappers, map codecs and the JSON codecs' Size/Append are not yet under contract.",
         "Partial: the structural induction over composite types (meta-lemma M-ind) is stated in DESIGN.md, not mechanised."),
 "C02": ("proof", "The bytes every leaf codec appends are proved equal to an independently written wire-format specification (varint, zig-zag, little-endian fixed, raw bytes with optional tag and length prefix), together with the primitives of plenccore; omission rules (Omit) of the leaf codecs are proved. Time encodings (Timestamp fields 1 and 2, zig-zag), the struct framing (tag, varint body length, body; prefix kept), the tag constants established by package initialisation and the fallback of named basic kinds to the codec of their basic type (dispatcher table) are proved too. Field order inside structs, packed/counted slices and maps are not yet under contract.",
         "Partial coverage as stated; spec functions come from README/wire.go/protobuf guide, not from the code."),
 "C01": ("proof", "For every leaf codec the decoder is proved to invert the specified encoding for every value (Read of the specified body returns the value and consumes exactly the body; int truncation per instantiation; float bit patterns; strings/bytes by content). Composite round trips rest on these plus the composite contracts not yet written.",
         "Partial: leaves only; composites by the (unmechanised) induction of DESIGN.md section 1."),
 "C04": ("proof", "No-panic (every index, slice, division, allocation size), termination (a decreases measure on every loop), result sanity (err == nil implies 0 <= n <= len(data)) and an allocation bound (elements <= len(data)) are proved for the decoders reachable from Unmarshal for non-JSON types: plenccore readers and Skip, all leaf codec Reads, PointerWrapper, the four slice wrappers, StructCodec.Read, MapCodec.Read/readMapEntry/readTagAndLength, ProtoMapCodec.Read, TimeCodec/TimeCompatCodec/BQTimestampCodec Read, the JSON-any codecs (JSONMapCodec/JSONArrayCodec.Read, readJSONKV) and the Descriptor walker (read, readAsSlice, readAsStruct, readAsMapEntry, readAsJSON, readJSONObjectKV) - for arbitrary input bytes and abstract component codecs obeying the interface contract. Nine genuine defects found this way were repaired by fix: commits (known_findings.json).",
         "Element-address arithmetic through unsafe pointers is not bounds-checked (only Go-level slice/index expressions are); header/contents separation is assumed via `keeps`; termination of the mutual recursion Descriptor.read <-> readAs* is by descriptor depth / shrinking data and is not mechanised; map contents are abstract."),
 "C11": ("proof", "Write side: every leaf Append is proved to be `old(data) ++ bytes` (prefix preserved, nothing written below len, result region is the caller's buffer or fresh, heap not assigned). Read side: leaf Reads assign only the target bytes (frame proved) and every pointer stored into the target is proved not to point into the input buffer (region taint), so string/bytes results are fresh copies. Interned strings, JSON codecs and Marshal/Unmarshal wrappers not yet under contract.",
         "Region reasoning is by the generator's provenance tags (an obligation per store)."),
 "C09": ("proof", "Omit contracts of the leaf codecs (zero value omitted) and PointerWrapper (omitted iff nil; Read leaves a non-nil pointer and re-uses an existing pointee) are proved, and each leaf Descriptor is proved to have ExplicitPresence false. null.* codecs and map entries not yet under contract.",
         "Partial coverage as stated."),
 "C14": ("proof", "The Descriptor of every leaf codec is proved to be exactly the table entry of the property statement (field type, every other attribute zero). Struct/slice/map/pointer/time/null descriptors not yet under contract.",
         "Partial coverage as stated."),
 "C03": ("proof", "Skip is proved to return exactly the encoded length of a well-formed field of every wire type (varint, fixed 32/64, length-delimited, and counted slices under a ghost well-formedness hypothesis), and errors otherwise (plenccore, shared with C18). StructCodec.Read is proved to terminate having consumed exactly len(data) on success, so every field - known or skipped - is stepped over exactly; the struct reader, sizer and appender are proved on their SSA never to read a field's name, and the reader never to consult declaration order (only the index table), so renaming and reordering cannot change decoding. TimeCodec / TimeCompatCodec readers (their default: skip branch) likewise consume exactly their input. The per-field value clause (a shared index receives the same value) rests on the component codec contracts; absent fields keep their prior value by the frame of the abstract component Read.",
         "The S/S' statement itself is the corollary M-evo of DESIGN.md over these contracts, not mechanised."),
 "C10": ("proof", "History independence of the map reader is proved with ghost staleness: the scratch key MapCodec.Read takes from its sync.Pool is modelled as holding arbitrary left-over contents, abstract component Reads are not assumed to overwrite it, and the key handed to the runtime's mapassign is proved to have been cleared first (the defect found this way - omitted key fields inheriting the previous entry's value - was reproduced by a witness scenario on the real code and repaired by a fix: commit). Merge rules proved as frames: every leaf Read (bool, ints, floats, string, bytes, null.*, time) writes exactly its target bytes and nothing else; PointerWrapper.Read keeps an existing pointee and allocates only when nil; composite readers touch the heap only through their component codecs. Clearing of re-used slice elements and append-only semantics of the repeated-field form are not yet under contract.",
         "Partial coverage as stated."),
 "C19": ("proof", "Sequential-history part only (the any-number-of-goroutines part quantifies over schedules and is not decided, see C07). With the intern table abstracted to the invariant I: every entry maps a key to a string with the same bytes - assumed for entries read (lookup, range) and proved for every entry written (the copy loop and the new entry in addString) - InternedStringCodec.Read is proved to store a string with exactly the bytes of the input and to consume len(data), for any table satisfying I, hence after any history; addString is proved to return such a string; everything written into a table is proved (region taint) not to be the caller's input bytes; the Omit/Size/Append/WireType of the interned codecs (plenccodec and null) are proved to be the plain string encoding; internedNullStringCodec.Read sets Valid.",
         "Atomic publication, locking and immutability of published tables are outside the sequential model. Placement of one interner per tagged field (BuildStructCodec) is not yet under contract."),
 "C12": ("proof", "TimeCompatCodec.size/append/Size/Append are proved to produce Timestamp{seconds = field 1, nanos = field 2} with plain (non zig-zag) varints - two's complement for negative seconds - framed like every other length-delimited field, and Size to agree with Append; the tag constants used are proved to be established by package initialisation; ProtoMapCodec.Read and the repeated-field reader (readAsWTLength / ProtoSliceWrapper.Read) are proved total (C04). The repeated-field and per-entry map writers (ProtoSliceWrapper / ProtoMapCodec Size/Append) and the option switches in the dispatcher are not yet under contract.",
         "Partial coverage as stated; time.Time accessors (Unix, Nanosecond) are uninterpreted pure functions."),
 "C06": ("proof", "(*Plenc).Marshal is proved to return, on success, a slice at least as long as the destination buffer whose first len(buf) bytes are the buffer's (for every registered or built codec obeying the interface contract, every buffer and capacity, including values that encode to nothing - the omit branch defect found here was repaired by a fix: commit); every leaf Append is proved to be old(data) ++ a byte sequence that is a function of the value and the tag alone; plenc.Marshal is proved to forward to the default instance. By-value versus by-pointer equivalence is outside the engine's model of interface values and is not decided.",
         "The bytes appended by composite codecs are those of their (interface-level) Append contract; determinism of composite encoders rests on contracts not yet written. The pointer-shaped by-value crash noted in the property is not reachable by this technique."),
 "C17": ("proof", "CodecForTypeRegistry is proved to return an existing registration for exactly (type, tag) before any kind-based default, and - for each of the 14 basic kinds - to succeed exactly when the codec registered on the same instance for the corresponding basic type under the same tag exists and then to return that codec (specified as a table written from the property statement, over an abstract reflect.Type). Every instance method of Plenc is proved (on its SSA, including inlined helpers) to reference no package-level variable, and each package-level function is proved to be a plain forwarding call on the default instance.",
         "sync.Map is abstract (Load is a pure function of the map, the key and the heap); isolation between two registries therefore rests on the no-package-variable frame, not on a model of sync.Map."),
 "C08": ("proof", "The dispatcher CodecForTypeRegistry is proved, over an abstract reflect.Type (every kind, every tag), never to panic, to return exactly one of a non-nil codec and an error, to reject the unsupported kinds (invalid, uintptr, complex, array, chan, func, interface, unsafe pointer) with an error and never to store a nil codec. BuildStructCodec / BuildMapCodec (tag parsing, duplicate and negative indexes, skipped fields, nesting restrictions) are not yet under contract.",
         "Partial: constructors of struct and map codecs are assumed to return a codec or an error."),
}

NA = {
 "C07": "quantifies over goroutine schedules / data races; sequential contracts cannot express it and no permission logic for Go is available here (DESIGN.md section 5, C07)",
}
NOT_BUILT = "contracts for this property are not written yet (DESIGN.md section 9 build order)"

props = [json.loads(l) for l in open('/verif/properties.jsonl')]
commits = subprocess.run(['git', '-C', '/repo', 'log', '--format=%h %s'], capture_output=True, text=True).stdout.splitlines()
hooks = [c.split()[0] for c in commits if c.split(' ', 1)[1].startswith('verif:')]
m = {
 "version": 1,
 "setup_cmd": "cd /verif && ./setup.sh",
 "hooks": {"guard": "verif", "enable": "go/packages loads /repo with -tags=verif; contracts_verif.go files are comment-only (//go:build verif) and read as text by the engine",
           "baseline_off_cmd": "cd /repo && go test -vet=off -count=1 ./...", "source_commits": hooks, "add_only": True},
 "engines": [{"name": "plencvc", "path": "/verif/engine", "serves_properties": sorted(CLAIMS),
              "kind_free_text": "VC generator over go/ssa (path-wise symbolic execution, loops cut at invariants or unrolled with proved unwinding assertions, callee contracts instead of bodies, engine-side quantifier instantiation) + SMT race (z3 4.8, z3 5.1, cvc5, bit-vector and integer back ends) + replay of counterexamples on the real code via go test -overlay"}],
 "checks": [], "not_applicable": [],
 "notes": "contract-based deductive verification of the real code; see DESIGN.md. Known findings and fixes: known_findings.json.",
}
for p in props:
    i = p["id"]
    if i in CLAIMS:
        cat, text, note = CLAIMS[i]
        m["checks"].append({
            "property_id": i, "quick_cmd": f"./check.sh {i} quick", "thorough_cmd": f"./check.sh {i} thorough",
            "evidence_file": f"/verif/evidence/{i}.json", "replay_cmd_template": "cat {path}", "engine": "plencvc",
            "level_claimed": {"category": cat, "text": text, "design_ref": f"DESIGN.md section 5 {i}"},
            "level_note": note + " " + TRUST, "technique": TECH})
    else:
        m["not_applicable"].append({"property_id": i, "reason": NA.get(i, NOT_BUILT)})
json.dump(m, open('/verif/MANIFEST.json', 'w'), indent=1)
print("claimed:", sorted(CLAIMS), "not applicable:", [e["property_id"] for e in m["not_applicable"]])
