#!/bin/bash
# usage: seed_eval.sh <seed-id> <property> <worktree-with-.seed> [other properties to run...]
# Confirms a seeded change (builds, suite passes, demo fails with / passes without),
# stores it under /verif/seeded/<id>/ and runs the property check(s) against /repo with the patch applied.
export GOFLAGS=-mod=mod GOPROXY=off GOSUMDB=off GOTOOLCHAIN=local
ID=$1; P=$2; WT=$3; shift 3; OTHERS="$@"
D=/verif/seeded/$ID; mkdir -p $D
cp $WT/.seed/patch.diff $WT/.seed/demo_test.go $D/ || exit 2
cp $WT/.seed/meta.json $D/meta.agent.json 2>/dev/null
S=$(mktemp -d /tmp/seedchk-XXXX)
rsync -a --exclude .git /repo/ $S/
DEMO_DIR=$(head -5 $D/demo_test.go | grep -o 'plenc[a-z/]*/\|root\|repo root' | head -1)
PKG=$(grep -m1 '^package ' $D/demo_test.go | awk '{print $2}')
case "$PKG" in plenc|plenc_test) SUB=. ;; plenccore|plenccore_test) SUB=plenccore ;; plenccodec|plenccodec_test) SUB=plenccodec ;; null|null_test) SUB=null ;; main|main_test) SUB=cmd/plenctag ;; *) SUB=. ;; esac
cp $D/demo_test.go $S/$SUB/zz_seed_demo_test.go
( cd $S && go test -vet=off -count=1 -run 'TestSeed' ./$SUB > $S/base.log 2>&1 ); BASE=$?
( cd $S && patch -p1 -s < $D/patch.diff ) || { echo "patch does not apply"; rm -rf $S; exit 2; }
( cd $S && go build ./... ) || { echo "mutant does not build"; rm -rf $S; exit 2; }
( cd $S && go test -vet=off -count=1 -run 'TestSeed' ./$SUB > $S/mut.log 2>&1 ); MUT=$?
rm $S/$SUB/zz_seed_demo_test.go
SUITE=1; for i in 1 2 3; do ( cd $S && go test -vet=off -count=1 ./... > $S/suite.log 2>&1 ) && { SUITE=0; break; }; done
echo "demo on unmodified code: exit $BASE (want 0); demo on mutant: exit $MUT (want !=0); existing suite on mutant: exit $SUITE (want 0)"
# run the checks against the scratch copy with the patch applied (/repo itself is never touched: the must-fail corpus
# and other checks may be reading it)
RES=""
for Q in $P $OTHERS; do
  OUT=$(/verif/bin/plencvc check --property $Q --repo $S --no-evidence --replay-dir /tmp/seed-replays-$ID 2>&1); RC=$?
  NV=$(echo "$OUT" | grep -c '^VIOLATION'); NR=$(echo "$OUT" | grep '^VIOLATION' | grep -vc 'no-failing-input-found')
  echo "check $Q on mutant: exit $RC, $NV violation line(s), $NR replayed"
  echo "$OUT" | grep -A2 '^VIOLATION' | head -12 | cut -c1-260
  RES="$RES $Q:exit=$RC,violations=$NV,replayed=$NR"
done
rm -rf $S
rm -rf /tmp/seed-replays-$ID
python3 - <<PY
import json,os
d="$D"; a={}
try: a=json.load(open(d+"/meta.agent.json"))
except Exception: pass
m={"id":"$ID","property":"$P","summary":a.get("summary",""),"needs":a.get("needs",""),
   "confirmed":{"demo_passes_without_patch":$BASE==0,"demo_fails_with_patch":$MUT!=0,"existing_suite_passes_with_patch":$SUITE==0},
   "ran":["scratch copy of /repo outside /repo and /verif: go test of the demo without and with patch.diff; go test -vet=off -count=1 ./... with the patch",
          "plencvc check --property ... --repo <the scratch copy with patch.diff applied>"],
   "check_results":"$RES".split()}
json.dump(m,open(d+"/meta.json","w"),indent=1)
PY
