#!/bin/bash
# Re-runs every claimed check with --update-baseline (after contract changes) and prints one line each.
cd /verif
for p in $(python3 -c "import json;print(' '.join(c['property_id'] for c in json.load(open('MANIFEST.json'))['checks']))") "$@"; do
  ./bin/plencvc check --property $p --update-baseline 2>&1 | grep "^property\|VIOLATION\|KNOWN" | cut -c1-220
done
