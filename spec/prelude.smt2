; Specification vocabulary for plenc, written from README.md, the protobuf
; encoding guide and the doc comments of plenccore/wire.go -- not from the code.
; All integers are fixed-width bit-vectors.

(define-fun zeromem () (Array (_ BitVec 64) (_ BitVec 8)) ((as const (Array (_ BitVec 64) (_ BitVec 8))) #x00))

; ismeta(a): address a belongs to immutable codec metadata (frame predicate)
(declare-fun ismeta ((_ BitVec 64)) Bool)

; vlen(u): number of bytes of the protobuf base-128 varint of u: the least k in
; 1..10 with u < 2^(7k)
(define-fun vlen ((u (_ BitVec 64))) (_ BitVec 64)
  (ite (bvult u #x0000000000000080) #x0000000000000001
  (ite (bvult u #x0000000000004000) #x0000000000000002
  (ite (bvult u #x0000000000200000) #x0000000000000003
  (ite (bvult u #x0000000010000000) #x0000000000000004
  (ite (bvult u #x0000000800000000) #x0000000000000005
  (ite (bvult u #x0000040000000000) #x0000000000000006
  (ite (bvult u #x0002000000000000) #x0000000000000007
  (ite (bvult u #x0100000000000000) #x0000000000000008
  (ite (bvult u #x8000000000000000) #x0000000000000009
       #x000000000000000a))))))))))

; vbyte(u, i): byte i of the varint of u: 7 payload bits, least significant
; group first, continuation bit set on every byte but the last
(define-fun vbyte ((u (_ BitVec 64)) (i (_ BitVec 64))) (_ BitVec 8)
  (bvor ((_ extract 7 0) (bvand (bvlshr u (bvmul #x0000000000000007 i)) #x000000000000007f))
        (ite (bvult (bvadd i #x0000000000000001) (vlen u)) #x80 #x00)))

; zz(s): zig-zag, stated arithmetically: 2s for s >= 0, -2s-1 for s < 0
(define-fun zz ((s (_ BitVec 64))) (_ BitVec 64)
  (ite (bvsge s #x0000000000000000)
       (bvmul #x0000000000000002 s)
       (bvsub (bvmul #xfffffffffffffffe s) #x0000000000000001)))

; tagval(wt, idx) = idx*8 + wt
(define-fun tagval ((wt (_ BitVec 8)) (idx (_ BitVec 64))) (_ BitVec 64)
  (bvadd (bvmul idx #x0000000000000008) ((_ zero_extend 56) wt)))

; validwt(wt): the wire types plenc defines: 0 varint, 1 fixed64, 2 length, 3 counted slice, 5 fixed32
(define-fun validwt ((wt (_ BitVec 8))) Bool
  (or (= wt #x00) (= wt #x01) (= wt #x02) (= wt #x03) (= wt #x05)))


; Ghost witnesses for "data is a well-formed counted slice (wire type 3)":
; scount entries, entry i starts at sstart(i) with a length prefix slen(i).
; They are uninterpreted; contracts constrain them only under the ghost
; hypothesis wfslice (a definitional assumption, satisfiable by wfslice = false).
(declare-const wfslice Bool)
(declare-const scount (_ BitVec 64))
(declare-fun sstart ((_ BitVec 64)) (_ BitVec 64))
(declare-fun slen ((_ BitVec 64)) (_ BitVec 64))

; rtypT(tid), rtypD(tid): the two words of reflect.TypeOf(x) for a value x whose dynamic type has id tid
(declare-fun rtypT ((_ BitVec 64)) (_ BitVec 64))
(declare-fun rtypD ((_ BitVec 64)) (_ BitVec 64))

; Ghost partial sums for "Size and Append walk the same elements": psum(i) is
; the encoded size of the first i fields / elements. Uninterpreted; constrained
; only under the ghost hypothesis wfsum (definitional: psum(0) = 0 and a
; recurrence instantiated at the loop counter).
(declare-const wfsum Bool)
(declare-fun psum ((_ BitVec 64)) (_ BitVec 64))

; Ghost witnesses for "data is the encoding of a time": seconds and nanoseconds
(declare-const wftime Bool)
(declare-const gsec (_ BitVec 64))
(declare-const gnanos (_ BitVec 32))

; ---- JSON string escaping (C15), written from RFC 8259 section 7 --------------
; The outputter's choice of representation for one source byte c: the two-character
; escapes for quotation mark, reverse solidus, line feed, carriage return and tab;
; \u00XX (lower-case hex) for the other control characters; the byte itself otherwise.
(define-fun esclen ((c (_ BitVec 8))) (_ BitVec 64)
  (ite (or (= c #x22) (= c #x5c) (= c #x0a) (= c #x0d) (= c #x09)) #x0000000000000002
  (ite (bvult c #x20) #x0000000000000006 #x0000000000000001)))
(define-fun hexdig ((n (_ BitVec 8))) (_ BitVec 8)
  (ite (bvult n #x0a) (bvadd n #x30) (bvadd n #x57)))
(define-fun escbyte ((c (_ BitVec 8)) (j (_ BitVec 64))) (_ BitVec 8)
  (ite (= (esclen c) #x0000000000000001) c
  (ite (= (esclen c) #x0000000000000002)
       (ite (= j #x0000000000000000) #x5c
            (ite (= c #x0a) #x6e (ite (= c #x0d) #x72 (ite (= c #x09) #x74 c))))
       (ite (= j #x0000000000000000) #x5c
       (ite (= j #x0000000000000001) #x75
       (ite (= j #x0000000000000002) #x30
       (ite (= j #x0000000000000003) #x30
       (ite (= j #x0000000000000004) (hexdig (bvlshr c #x04))
            (hexdig (bvand c #x0f))))))))))
; The reader's side of RFC 8259 section 7, stated independently: junit_ok(n, b0..b5) holds
; when the n bytes b0.. form one legal unit of a JSON string body (an unescaped character
; byte other than quotation mark, reverse solidus and the control characters; a
; two-character escape; or a \uXXXX escape), and junit_val is the code unit it denotes.
(define-fun hexval ((b (_ BitVec 8))) (_ BitVec 16)
  (ite (and (bvuge b #x30) (bvule b #x39)) ((_ zero_extend 8) (bvsub b #x30))
  (ite (and (bvuge b #x61) (bvule b #x66)) ((_ zero_extend 8) (bvsub b #x57))
  (ite (and (bvuge b #x41) (bvule b #x46)) ((_ zero_extend 8) (bvsub b #x37)) #xffff))))
(define-fun junit_ok ((n (_ BitVec 64)) (b0 (_ BitVec 8)) (b1 (_ BitVec 8)) (b2 (_ BitVec 8)) (b3 (_ BitVec 8)) (b4 (_ BitVec 8)) (b5 (_ BitVec 8))) Bool
  (or (and (= n #x0000000000000001) (bvuge b0 #x20) (not (= b0 #x22)) (not (= b0 #x5c)))
      (and (= n #x0000000000000002) (= b0 #x5c)
           (or (= b1 #x22) (= b1 #x5c) (= b1 #x2f) (= b1 #x62) (= b1 #x66) (= b1 #x6e) (= b1 #x72) (= b1 #x74)))
      (and (= n #x0000000000000006) (= b0 #x5c) (= b1 #x75)
           (not (= (hexval b2) #xffff)) (not (= (hexval b3) #xffff)) (not (= (hexval b4) #xffff)) (not (= (hexval b5) #xffff)))))
(define-fun junit_val ((n (_ BitVec 64)) (b0 (_ BitVec 8)) (b1 (_ BitVec 8)) (b2 (_ BitVec 8)) (b3 (_ BitVec 8)) (b4 (_ BitVec 8)) (b5 (_ BitVec 8))) (_ BitVec 16)
  (ite (= n #x0000000000000001) ((_ zero_extend 8) b0)
  (ite (= n #x0000000000000002)
       (ite (= b1 #x62) #x0008 (ite (= b1 #x66) #x000c (ite (= b1 #x6e) #x000a (ite (= b1 #x72) #x000d (ite (= b1 #x74) #x0009 ((_ zero_extend 8) b1))))))
       (bvor (bvshl (hexval b2) #x000c) (bvshl (hexval b3) #x0008) (bvshl (hexval b4) #x0004) (hexval b5)))))
; Ghost offsets for "the output is the concatenation of the units of the source bytes":
; eoff(i) is the offset of source byte i's unit, defined by its recurrence under wfesc
; (a definitional assumption, satisfiable by wfesc = false).
(declare-const wfesc Bool)
(declare-fun eoff ((_ BitVec 64)) (_ BitVec 64))
(declare-fun esrc ((_ BitVec 64)) (_ BitVec 64))
(declare-fun eidx ((_ BitVec 64)) (_ BitVec 64))
; length of the decimal / float text strconv produces for a value: between 1 and 32 bytes, otherwise uninterpreted
(declare-fun numlen ((_ BitVec 64) (_ BitVec 64)) (_ BitVec 64))

; directiface(t): interface values whose dynamic type is the one reflect.TypeOf describes by the *rtype t hold the value itself in their data
; word (pointer-shaped types: pointers, maps, channels, functions, and structs / arrays of exactly one such
; element), instead of a pointer to a copy of the value. Uninterpreted: a fact about Go's representation.
(declare-fun directiface ((_ BitVec 64)) Bool)
