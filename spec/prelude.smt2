; Specification vocabulary for plenc, written from README.md, the protobuf
; encoding guide and the doc comments of plenccore/wire.go -- not from the code.
; All integers are fixed-width bit-vectors.

(define-fun zeromem () (Array (_ BitVec 64) (_ BitVec 8)) ((as const (Array (_ BitVec 64) (_ BitVec 8))) #x00))

; ismeta(a): address a belongs to immutable codec metadata (frame predicate)
(declare-fun ismeta ((_ BitVec 64)) Bool)

; vlen(u): number of bytes of the protobuf base-128 varint of u: the least k in
; 1..10 with u < 2^(7k)
(define-fun vlen ((u (_ BitVec 64))) (_ BitVec 64)
  (ite (bvult u #x0000000000000080) #x0000000000000001
  (ite (bvult u #x0000000000004000) #x0000000000000002
  (ite (bvult u #x0000000000200000) #x0000000000000003
  (ite (bvult u #x0000000010000000) #x0000000000000004
  (ite (bvult u #x0000000800000000) #x0000000000000005
  (ite (bvult u #x0000040000000000) #x0000000000000006
  (ite (bvult u #x0002000000000000) #x0000000000000007
  (ite (bvult u #x0100000000000000) #x0000000000000008
  (ite (bvult u #x8000000000000000) #x0000000000000009
       #x000000000000000a))))))))))

; vbyte(u, i): byte i of the varint of u: 7 payload bits, least significant
; group first, continuation bit set on every byte but the last
(define-fun vbyte ((u (_ BitVec 64)) (i (_ BitVec 64))) (_ BitVec 8)
  (bvor ((_ extract 7 0) (bvand (bvlshr u (bvmul #x0000000000000007 i)) #x000000000000007f))
        (ite (bvult (bvadd i #x0000000000000001) (vlen u)) #x80 #x00)))

; zz(s): zig-zag, stated arithmetically: 2s for s >= 0, -2s-1 for s < 0
(define-fun zz ((s (_ BitVec 64))) (_ BitVec 64)
  (ite (bvsge s #x0000000000000000)
       (bvmul #x0000000000000002 s)
       (bvsub (bvmul #xfffffffffffffffe s) #x0000000000000001)))

; tagval(wt, idx) = idx*8 + wt
(define-fun tagval ((wt (_ BitVec 8)) (idx (_ BitVec 64))) (_ BitVec 64)
  (bvadd (bvmul idx #x0000000000000008) ((_ zero_extend 56) wt)))

; validwt(wt): the wire types plenc defines: 0 varint, 1 fixed64, 2 length, 3 counted slice, 5 fixed32
(define-fun validwt ((wt (_ BitVec 8))) Bool
  (or (= wt #x00) (= wt #x01) (= wt #x02) (= wt #x03) (= wt #x05)))


; Ghost witnesses for "data is a well-formed counted slice (wire type 3)":
; scount entries, entry i starts at sstart(i) with a length prefix slen(i).
; They are uninterpreted; contracts constrain them only under the ghost
; hypothesis wfslice (a definitional assumption, satisfiable by wfslice = false).
(declare-const wfslice Bool)
(declare-const scount (_ BitVec 64))
(declare-fun sstart ((_ BitVec 64)) (_ BitVec 64))
(declare-fun slen ((_ BitVec 64)) (_ BitVec 64))

; rtypT(tid), rtypD(tid): the two words of reflect.TypeOf(x) for a value x whose dynamic type has id tid
(declare-fun rtypT ((_ BitVec 64)) (_ BitVec 64))
(declare-fun rtypD ((_ BitVec 64)) (_ BitVec 64))

; Ghost partial sums for "Size and Append walk the same elements": psum(i) is
; the encoded size of the first i fields / elements. Uninterpreted; constrained
; only under the ghost hypothesis wfsum (definitional: psum(0) = 0 and a
; recurrence instantiated at the loop counter).
(declare-const wfsum Bool)
(declare-fun psum ((_ BitVec 64)) (_ BitVec 64))

; Ghost witnesses for "data is the encoding of a time": seconds and nanoseconds
(declare-const wftime Bool)
(declare-const gsec (_ BitVec 64))
(declare-const gnanos (_ BitVec 32))
